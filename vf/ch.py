"""Single adapter to CrossHair internals (pinned: crosshair-tool 0.0.110).

Everything that touches CrossHair's state space goes through here so that the
symnp model and the harnesses do not depend on CrossHair's module layout.
When no state space is active (concrete replay, validator, direct-z3 mode) the
helpers degrade to plain Python behaviour.
"""
import z3

try:
    from crosshair.statespace import context_statespace, optional_context_statespace
    from crosshair.tracers import NoTracing, ResumedTracing, is_tracing
    from crosshair.libimpl.builtinslib import (SymbolicBool, SymbolicInt,
                                               SymbolicValue)
    from crosshair.util import IgnoreAttempt
    from crosshair.core import realize as _ch_realize, deep_realize as _ch_deep
    HAVE_CH = True
except Exception:  # pragma: no cover
    HAVE_CH = False

    class IgnoreAttempt(BaseException):
        pass


def space():
    """Active CrossHair state space or None."""
    if not HAVE_CH:
        return None
    with NoTracing():
        return optional_context_statespace()


def active():
    return space() is not None


def uniq(tag):
    sp = space()
    if sp is None:
        uniq.n += 1
        return '%s!%d' % (tag, uniq.n)
    return tag + sp.uniq()


uniq.n = 0


def is_symbolic(x):
    """True for CrossHair symbolic atoms."""
    if not HAVE_CH:
        return False
    with NoTracing():
        return isinstance(x, SymbolicValue)


def sym_bool(expr):
    """Wrap a z3 Bool term as a value usable in Python control flow."""
    with NoTracing():
        if z3.is_true(expr):
            return True
        if z3.is_false(expr):
            return False
        if space() is None:
            raise RuntimeError('symbolic boolean outside of a state space: %s' % expr)
        return SymbolicBool(expr)


def sym_int(expr):
    with NoTracing():
        if z3.is_int_value(expr):
            return expr.as_long()
        return SymbolicInt(expr)


def var_of(x):
    """z3 term of a CrossHair symbolic atom (or None)."""
    with NoTracing():
        if HAVE_CH and isinstance(x, SymbolicValue):
            return x.var
    return None


def fork(expr):
    """Decide a z3 Bool on the current path (explores both sides over time)."""
    with NoTracing():
        if z3.is_true(expr):
            return True
        if z3.is_false(expr):
            return False
        sp = space()
        if sp is None:
            raise RuntimeError('fork outside of a state space')
        return sp.smt_fork(expr)


def assume(cond):
    """Discard the current path unless cond holds."""
    if not cond:
        raise IgnoreAttempt('assumption')


def add_axiom(expr):
    """Add a fact to the path condition (must be a consequence of the intended
    interpretation of the uninterpreted symbols; listed in evidence)."""
    with NoTracing():
        sp = space()
        if sp is None:
            return
        if z3.is_true(expr):
            return
        if sp._exprs_known.get(expr) is True:
            return
        sp.add(expr)


def model_value(expr):
    """Concrete value of a z3 term on the current path (constrains the path)."""
    with NoTracing():
        sp = space()
        return sp.find_model_value(expr)


def realize(x):
    if not HAVE_CH:
        return x
    return _ch_realize(x)


def deep_realize(x):
    if not HAVE_CH:
        return x
    return _ch_deep(x)


def peek(x):
    """One satisfying value of every symbolic atom in x on the current path, read from a
    solver model WITHOUT adding a decision to the path tree (unlike deep_realize, which makes
    'realize' nodes that are never exhausted for inputs the path does not pin down)."""
    if not HAVE_CH:
        return x
    with NoTracing():
        sp = space()
        if sp is None:
            return x
        model = None
        try:
            if str(sp.solver.check()) == 'sat':
                model = sp.solver.model()
        except Exception:
            model = None

        def ev(e):
            if model is None:
                return '<symbolic>'
            try:
                m = model.eval(e, model_completion=True)
                if z3.is_int_value(m):
                    return m.as_long()
                if z3.is_true(m):
                    return True
                if z3.is_false(m):
                    return False
                if z3.is_string_value(m):
                    return m.as_string()
                if z3.is_rational_value(m):
                    return float(m.numerator_as_long()) / float(m.denominator_as_long())
                return str(m)[:60]
            except Exception:
                return '<symbolic>'

        def rec(v, depth=0):
            t = type(v)
            if t in _CONCRETE_ATOMS:
                return v
            if depth > 6:
                return '<...>'
            if t is dict:
                return {k: rec(w, depth + 1) for k, w in v.items()}
            if t is list or t is tuple:
                return [rec(w, depth + 1) for w in v]
            if isinstance(v, SymbolicValue):
                e = getattr(v, 'var', None)
                if e is not None and isinstance(e, z3.ExprRef):
                    return ev(e)
                return '<symbolic %s>' % t.__name__
            return '<%s>' % t.__name__
        return rec(x)


def b_and(a, b):
    """Non-forking conjunction where possible."""
    with NoTracing():
        va, vb = var_of(a), var_of(b)
        if va is None and vb is None:
            return bool(a) and bool(b)
        if va is None:
            return b if a else False
        if vb is None:
            return a if b else False
        if z3.is_bool(va) and z3.is_bool(vb):
            return SymbolicBool(z3.And(va, vb))
    return a and b


def b_or(a, b):
    with NoTracing():
        va, vb = var_of(a), var_of(b)
        if va is None and vb is None:
            return bool(a) or bool(b)
        if va is None:
            return True if a else b
        if vb is None:
            return True if b else a
        if z3.is_bool(va) and z3.is_bool(vb):
            return SymbolicBool(z3.Or(va, vb))
    return a or b


def b_not(a):
    with NoTracing():
        va = var_of(a)
        if va is None:
            return not a
        if z3.is_bool(va):
            return SymbolicBool(z3.Not(va))
    return not a


def b_xor(a, b):
    return b_or(b_and(a, b_not(b)), b_and(b_not(a), b))


def pick(i, lo, hi):
    """Concretise an int known to lie in [lo, hi) by forking on equalities (keeps
    CrossHair's exhaustion bookkeeping exact, unlike model-value realisation)."""
    if var_of(i) is None:
        return i
    for k in range(lo, hi - 1):
        if i == k:
            return k
    return hi - 1


_CONCRETE_ATOMS = (int, float, bool, str, type(None), type(Ellipsis), complex, bytes)


def _conc(x, depth):
    t = type(x)
    if t in _CONCRETE_ATOMS:
        return True
    if depth <= 0:
        return False
    if t is slice:
        return _conc(x.start, 1) and _conc(x.stop, 1) and _conc(x.step, 1)
    if t is list or t is tuple:
        for e in x:
            if not _conc(e, depth - 1):
                return False
        return True
    if hasattr(x, '_symnp_scalar'):
        return type(x.v) in _CONCRETE_ATOMS
    if hasattr(x, '_buf') and hasattr(x, '_strides'):
        if len(x._buf) > 64:
            return False
        for e in x._buf:
            if type(e) not in _CONCRETE_ATOMS:
                return False
        return True
    return False


def concrete(*objs):
    """True when the objects contain no CrossHair symbolic values or proxies (checked
    on real types, so it must run untraced)."""
    if not HAVE_CH:
        return True
    with NoTracing():
        for o in objs:
            if not _conc(o, 3):
                return False
        return True
