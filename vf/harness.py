"""Harness support shared by all property modules.

A *condition* is a Python function with a PEP316 contract (`pre:`/`post: _`) that
CrossHair explores symbolically.  Its body calls `H.run(name, inputs, body)`,
where `body(B, I)` is written once against a backend `B` and is used three ways:
decide (B = re-hosted FlowCal on symnp, symbolic inputs), replay (B = the real
FlowCal on the real NumPy, concrete counterexample), validate (both, concrete).
"""
import json
import math
import os
import traceback

from . import ch
from .symnp.core import ModelGap
from .symnp.scalars import RealT, TermT


class HarnessError(Exception):
    pass


class Reject(Exception):
    """Raised by a body to signal 'this input is outside the claim' (assume False)."""


class Backend(object):
    """What a body may use.  kind in {'model','real'}."""

    def __init__(self, env):
        self.env = env
        self.kind = env.kind
        self.np = env.np
        self.FC = env.FlowCal

    # ---- arrays and samples
    def arr(self, rows, dtype=None):
        np = self.np
        if dtype is None:
            return np.array(rows)
        return np.array(rows, dtype=dtype)

    def sample(self, rows, dtype=None, channels=None, **meta):
        """FCSData over the given events with explicit metadata (no file)."""
        a = self.arr(rows, dtype)
        if a.ndim != 2:
            raise HarnessError('sample needs a 2-d event matrix')
        D = a.shape[1]
        cls = self.FC.io.FCSData
        s = a.view(cls)
        ch_names = tuple(channels) if channels is not None else tuple('ch%d' % i for i in range(D))
        s._infile = meta.get('infile', 'mem.fcs')
        s._text = meta.get('text', {'$PAR': str(D)})
        s._analysis = meta.get('analysis', {})
        s._data_type = meta.get('data_type', 'I')
        s._time_step = meta.get('time_step', None)
        s._acquisition_start_time = meta.get('acquisition_start_time', None)
        s._acquisition_end_time = meta.get('acquisition_end_time', None)
        s._channels = ch_names
        s._amplification_type = tuple(meta.get('amplification_type', [(0.0, 0.0)] * D))
        s._detector_voltage = tuple(meta.get('detector_voltage', [None] * D))
        s._amplifier_gain = tuple(meta.get('amplifier_gain', [None] * D))
        s._channel_labels = tuple(meta.get('channel_labels', [None] * D))
        s._range = [list(r) for r in meta.get('range', [[0.0, 1023.0]] * D)]
        s._resolution = tuple(meta.get('resolution', [1024] * D))
        return s

    def tolist(self, a):
        """Nested python lists of bare values."""
        if hasattr(a, 'tolist'):
            return a.tolist()
        return a

    def is_array(self, x):
        return isinstance(x, self.np.ndarray)

    def cls_name(self, x):
        return type(x).__name__

    def close(self, a, b, rel=1e-9):
        """Equality: exact for symbolic/int, relative tolerance for concrete floats."""
        if self.kind == 'model':
            return a == b
        try:
            fa, fb = float(a), float(b)
        except (TypeError, ValueError):
            return a == b
        if fa == fb:
            return True
        if math.isnan(fa) and math.isnan(fb):
            return True
        return abs(fa - fb) <= rel * max(abs(fa), abs(fb), 1e-300)


class H(object):
    """Per-job harness state (one job = one condition in one process)."""
    env = None            # model Env
    cex_path = None
    stats = None
    mode = 'decide'       # 'decide' | 'replay'
    replay_inputs = None
    excluded = ()         # known-finding regions assumed away
    _reals = None
    _path_marks = None

    @classmethod
    def reset(cls, env, cex_path):
        cls.env = env
        cls.cex_path = cex_path
        cls.stats = {'paths': 0, 'paths_done': 0, 'rejected': 0, 'marks': {}, 'samples': [],
                     'exceptions': {}}
        cls.mode = 'decide'
        cls.replay_inputs = None

    # ---- inputs created inside a body
    @classmethod
    def real(cls, name):
        if cls.mode == 'replay':
            return float(cls.replay_inputs['reals'][name])
        r = RealT.fresh(name)
        cls._reals[name] = r
        return r

    @classmethod
    def mark(cls, m):
        cls._path_marks.add(m)

    @classmethod
    def excluded_region(cls, name):
        return name in cls.excluded

    # ---- running a body
    @classmethod
    def run(cls, cond_name, inputs, body):
        """Returns the postcondition value; records a counterexample when it is false."""
        cls.stats['paths'] += 1
        cls._reals = {}
        cls._path_marks = set()
        B = Backend(cls.env)
        try:
            res = body(B, inputs)
        except Reject:
            cls.stats['rejected'] += 1
            raise ch.IgnoreAttempt('rejected by harness')
        except ModelGap:
            raise
        except Exception as e:       # an exception escaping the body is a harness bug
            cls._record(cond_name, inputs, 'harness exception: %s: %s' % (type(e).__name__, e),
                        traceback.format_exc())
            raise
        detail = ''
        extra = None
        if isinstance(res, tuple):
            if len(res) == 3:
                res, detail, extra = res
            else:
                res, detail = res
        cls._extra = extra
        if res:
            cls.stats['paths_done'] += 1
            key = ','.join(sorted(cls._path_marks))
            cls.stats['marks'][key] = cls.stats['marks'].get(key, 0) + 1
            if len(cls.stats['samples']) < 3:
                try:
                    cls.stats['samples'].append({'inputs': _jsonable(ch.peek(inputs)),
                                                 'marks': key})
                except Exception:
                    pass
            return True
        cls._record(cond_name, inputs, detail, None)
        return False

    @classmethod
    def _record(cls, cond_name, inputs, detail, tb):
        if cls.cex_path is None or os.path.exists(cls.cex_path):
            return
        err = None
        conc, reals, det, info = None, {}, None, None
        try:
            conc = ch.deep_realize(inputs)
            for k, r in (cls._reals or {}).items():
                try:
                    reals[k] = r.value()
                except Exception:
                    reals[k] = None
            det = ch.deep_realize(detail)
            try:
                info = ch.deep_realize(getattr(cls, '_extra', None))
            except Exception:
                info = None
        except ch.IgnoreAttempt:
            raise
        except Exception as e:
            err = '%s: %s' % (type(e).__name__, e)
        with ch.NoTracing():
            try:
                doc = {'condition': cond_name, 'inputs': _jsonable(conc), 'reals': reals,
                       'detail': _jsonable(det) if err is None else
                       'could not realise counterexample: %s' % err,
                       'traceback': tb if err is None else (tb or err), 'info': _jsonable(info),
                       'marks': sorted(cls._path_marks or ())}
                text = json.dumps(doc, indent=1, default=repr)
            except Exception as e2:
                text = json.dumps({'condition': cond_name, 'inputs': None, 'reals': {},
                                   'detail': 'could not serialise counterexample',
                                   'traceback': repr(e2)})
            with open(cls.cex_path, 'w') as f:
                f.write(text)


_GEN_COUNT = [0]


def cond_fn(name, params, body, pre=(), consts=None):
    """Build a contract-carrying function for CrossHair with exactly the given symbolic
    parameters.  params: [(name, type-expression-string)], pre: PEP316 precondition
    strings, consts: concrete entries merged into the input dict handed to `body`.
    The source is registered with linecache so that CrossHair can read the contract."""
    import linecache
    import typing
    import re
    params = list(params) or [('unused_', 'bool')]
    # Tuple[...] parameters are expanded into scalar parameters: CrossHair forks on the
    # possible *subtypes* of every element of a typed tuple (bool, IntEnum ... for int),
    # which multiplies paths by ~25 per element without adding anything to the claim.
    flat = []
    groups = {}
    pre = list(pre)
    for n, t in params:
        m = re.match(r'^Tuple\[(.*)\]$', t.strip())
        if not m:
            flat.append((n, t))
            continue
        elts = [e.strip() for e in m.group(1).split(',')]
        names_ = ['%s_%d' % (n, i) for i in range(len(elts))]
        groups[n] = names_
        flat.extend(zip(names_, elts))
        tup = '(' + ', '.join(names_) + ',)'
        pre = [re.sub(r'\b%s\b' % re.escape(n), tup, pc) for pc in pre]
    if len(set(n for n, _ in flat)) != len(flat):
        raise AssertionError('cond_fn: parameter names collide after Tuple expansion: %r'
                             % ([n for n, _ in flat],))
    _GEN_COUNT[0] += 1
    fname = '<vf-cond-%s-%d>' % (name, _GEN_COUNT[0])
    sig = ', '.join('%s: %s' % (n, t) for n, t in flat)
    names = ', '.join(repr(n) for n, _ in flat)
    vals = ', '.join(n for n, _ in flat)
    lines = ['def %s(%s) -> bool:' % (name, sig), '    """']
    for pc in pre:
        lines.append('    pre: ' + pc)
    lines += ['    post: _', '    """',
              '    return __vf_run__(%r, (%s,), (%s,))' % (name, names, vals), '']
    src = '\n'.join(lines)
    linecache.cache[fname] = (len(src), None, [l + '\n' for l in lines], fname)
    consts = dict(consts or {})

    def runner(cname, keys, values):
        with ch.NoTracing():
            I = dict(zip(keys, values))
            for gname, members in groups.items():
                I[gname] = tuple(I.pop(m_) for m_ in members)
            I.update(consts)
        return H.run(cname, I, body)
    import sys
    import types
    modname = 'vf_generated_%d' % _GEN_COUNT[0]
    mod = types.ModuleType(modname)
    mod.__file__ = fname
    g = mod.__dict__
    g.update({'__vf_run__': runner, 'Tuple': typing.Tuple, 'List': typing.List,
              'Optional': typing.Optional})
    sys.modules[modname] = mod
    exec(compile(src, fname, 'exec'), g)
    return g[name]


def _jsonable(x):
    if isinstance(x, dict):
        return {str(k): _jsonable(v) for k, v in x.items()}
    if isinstance(x, (list, tuple)):
        return [_jsonable(v) for v in x]
    if isinstance(x, (str, int, bool)) or x is None:
        return x
    if isinstance(x, float):
        if math.isnan(x) or math.isinf(x):
            return repr(x)
        return x
    if isinstance(x, slice):
        return {'slice': [x.start, x.stop, x.step]}
    if x is Ellipsis:
        return '...'
    return repr(x)


def catch(fn, *a, **kw):
    """-> ('ok', value) | ('exc', ExceptionTypeName, message).  Only Exception:
    CrossHair's path-steering exceptions are BaseException and must pass."""
    try:
        return ('ok', fn(*a, **kw))
    except ModelGap:
        raise
    except Reject:
        raise
    except Exception as e:
        tb = traceback.extract_tb(e.__traceback__)
        where = ' <- '.join('%s:%d' % (os.path.basename(f.filename), f.lineno)
                            for f in reversed(tb[-4:]))
        return ('exc', type(e).__name__, str(e)[:200] + ' @ ' + where)


def shadow_type(real, conv):
    """A stand-in for a builtin type (int/float) inside a re-hosted module: calling it runs
    `conv` (which understands abstract numerals), while isinstance/issubclass behave exactly
    like the real type."""
    class _Meta(type):
        def __instancecheck__(cls, obj):
            return isinstance(obj, real)

        def __subclasscheck__(cls, sub):
            return issubclass(sub, real)

        def __call__(cls, *a, **kw):
            return conv(*a, **kw)
    return _Meta(real.__name__, (), {})
