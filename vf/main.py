"""./check Cnn [--tier quick|thorough] [--only substr,...] [--replay FILE] [--repo DIR]"""
import argparse
import json
import os
import sys

from . import driver

PROPS = {
    'C01': 'vf.props.c01', 'C02': 'vf.props.c02', 'C03': 'vf.props.c03', 'C04': 'vf.props.c04',
    'C05': 'vf.props.c05', 'C06': 'vf.props.c06', 'C07': 'vf.props.c07', 'C08': 'vf.props.c08',
    'C09': 'vf.props.c09', 'C10': 'vf.props.c10', 'C11': 'vf.props.c11', 'C12': 'vf.props.c12',
    'C13': 'vf.props.c13', 'C14': 'vf.props.c14', 'C16': 'vf.props.c16', 'C17': 'vf.props.c17',
    'C18': 'vf.props.c18', 'C19': 'vf.props.c19', 'C20': 'vf.props.c20',
}


def replay(prop, path, repo):
    """Re-run a stored counterexample against the real library."""
    import importlib
    from . import rehost, harness
    doc = json.load(open(path))
    mod = importlib.import_module(PROPS[prop])
    cond = [c for c in mod.conditions(doc.get('tier', 'quick')) if c.name == doc['condition']]
    if not cond:
        cond = [c for c in mod.conditions('thorough') if c.name == doc['condition']]
    cond = cond[0]
    real = rehost.RealEnv(repo)
    B = harness.Backend(real)
    harness.H.mode = 'replay'
    harness.H.replay_inputs = doc['cex']
    violated, what = cond.replay(B, doc['cex'])
    print('replay %s %s: %s (%s)' % (prop, doc['condition'],
                                    'REPRODUCED' if violated else 'not reproduced', what))
    if violated:
        print('VIOLATION property=%s replay=%s' % (prop, path))
        return 1
    return 0


def main(argv=None):
    ap = argparse.ArgumentParser()
    ap.add_argument('prop')
    ap.add_argument('--tier', default=os.environ.get('VERIF_TIER', 'quick'),
                    choices=['quick', 'thorough'])
    ap.add_argument('--only', default=None)
    ap.add_argument('--replay', default=None)
    ap.add_argument('--repo', default=os.environ.get('VERIF_REPO', '/repo'))
    ap.add_argument('--nproc', type=int, default=int(os.environ.get('VERIF_NPROC', '16')))
    a = ap.parse_args(argv)
    if a.prop not in PROPS:
        print('unknown property %s' % a.prop)
        return 3
    seed = int(os.environ.get('VERIF_SEED', '0') or 0)
    if a.replay:
        return replay(a.prop, a.replay, a.repo)
    only = [o for o in a.only.split(',') if o] if a.only else None
    return driver.check_property(a.prop, PROPS[a.prop], a.tier, a.repo, seed, only=only,
                                 nproc=a.nproc)


if __name__ == '__main__':
    sys.exit(main())
