"""Helpers shared by property harnesses."""
from ..harness import H, Backend, Reject, catch, HarnessError

META_FIELDS = ('_infile', '_text', '_analysis', '_data_type', '_time_step',
               '_acquisition_start_time', '_acquisition_end_time', '_channels',
               '_amplification_type', '_detector_voltage', '_amplifier_gain',
               '_channel_labels', '_range', '_resolution')
CHANNEL_FIELDS = ('_channels', '_amplification_type', '_detector_voltage', '_amplifier_gain',
                  '_channel_labels', '_range', '_resolution')


def meta_of(s):
    """Snapshot (by value) of the 14 state fields of a sample."""
    out = {}
    for f in META_FIELDS:
        v = getattr(s, f, '<missing>')
        if f == '_range' and v != '<missing>' and v is not None:
            v = [list(r) if r is not None else None for r in v]
        elif isinstance(v, dict):
            v = dict(v)
        elif isinstance(v, (list, tuple)):
            v = list(v)
        out[f] = v
    return out


def is_sample(B, x):
    return isinstance(x, B.FC.io.FCSData)


def rows_of(B, a):
    """2-d (or 1-d) array -> nested python lists of bare values."""
    return B.tolist(a)


def std_replay(body):
    """Replay = run the same body on the real library with the realised inputs."""
    def replay(B, cex):
        from ..harness import Reject
        try:
            res = body(B, cex['inputs'])
        except Reject:
            return False, 'counterexample outside the harness domain on replay'
        detail = ''
        if isinstance(res, tuple):
            res, detail = res[0], res[1]
        return (not res), str(detail)
    return replay


def mk_meta(D, tag='m'):
    """Distinct atoms in every per-channel attribute, so that any permutation,
    drop or duplication of metadata is visible."""
    return dict(
        channels=['%s_n%d' % (tag, i) for i in range(D)],
        amplification_type=[(float(i + 1), 1.0 + i) for i in range(D)],
        detector_voltage=[100.0 + i for i in range(D)],
        amplifier_gain=[2.0 + i for i in range(D)],
        channel_labels=['%s_l%d' % (tag, i) for i in range(D)],
        range=[[0.0 + i, 1000.0 + i] for i in range(D)],
        resolution=[1024 + i for i in range(D)],
        text={'$PAR': str(D), 'K': 'v'}, analysis={'A': 'b'},
        time_step=0.5, data_type='I', infile='atoms.fcs')
