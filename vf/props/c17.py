"""C17 - acquisition metadata reflects the file's keywords and never blocks loading."""
import datetime
import os

from ..driver import Cond
from ..harness import H, Reject, catch, cond_fn, shadow_type
from .. import ch
from .common import std_replay
from . import fcsgen

INFO = {
    'explanation': 'Bounded symbolic execution (CrossHair + z3) of the real source of '
                   'FCSData.__new__, _parse_time_string, _parse_date_string, acquisition_time and '
                   'the accessors.  FCSFile is a stub carrying a keyword dictionary; presence of '
                   'every optional keyword is a symbolic boolean; numeric keyword values are '
                   'abstract numerals (well-formedness is a symbolic boolean, the value a symbolic '
                   'number), so the result holds for every numeral syntax; time and date strings '
                   'are assembled from per-field token tables chosen by symbolic indices (valid, '
                   'out-of-range, empty and non-numeric fields, all field counts).',
    'functions': ['FlowCal.io.FCSData.__new__', 'FlowCal.io.FCSData._parse_time_string',
                  'FlowCal.io.FCSData._parse_date_string', 'FlowCal.io.FCSData.acquisition_time',
                  'FlowCal.io.FCSData.time_step/acquisition_start_time/acquisition_end_time/'
                  'channels/range/resolution/amplification_type/detector_voltage/amplifier_gain/'
                  'channel_labels'],
    'bounds': {'quick': {'channels': '2 (11 for the vendor gain/voltage fallbacks)',
                         'time strings': '0..5 fields from tables of 5/4/7/7 tokens',
                         'date strings': '3 fields from tables, 2 separators'},
               'thorough': {}},
    'outside': ['time/date strings outside the token tables', 'more than 11 channels'],
    'stubs': ['FCSFile (keyword dictionary + 2xD event array)', 'datetime: the real C implementation run untraced on concrete strings',
              'float()/int() on keyword values: abstract numeral (wf flag, value)'],
    'assumptions': ['CPython datetime.strptime (executed for real on the concrete strings of each '
                    'path)'],
}


class Kw(object):
    """Abstract numeric keyword value: float(Kw) is `val` when `wf`, else ValueError."""

    def __init__(self, wf, val, ill='abc'):
        self._get = lambda: (wf, val)
        self.ill = ill

    def __copy__(self):
        return self

    def __deepcopy__(self, memo):
        return self

    def render(self):
        wf, val = self._get()
        if not wf:
            return self.ill
        v = float(val)
        if v == int(v) and abs(v) < 1e15:
            return str(int(v))
        return repr(v)

    def __format__(self, spec):
        return 'KW'


class PnE(object):
    """$PnE value 'a0,a1'."""

    def __init__(self, a0, a1):
        self.a = (a0, a1)

    def split(self, sep):
        return [Kw(True, self.a[0]), Kw(True, self.a[1])]

    def render(self):
        return '%r,%r' % (float(self.a[0]), float(self.a[1]))


def model_float(x=0.0):
    if isinstance(x, Kw):
        wf, val = x._get()
        if not wf:
            raise ValueError('could not convert string to float')
        return val
    return float(x)


def model_int(x=0, *a):
    if isinstance(x, Kw):
        wf, val = x._get()
        if not wf:
            raise ValueError('invalid literal for int()')
        return val if ch.var_of(val) is not None or isinstance(val, int) else int(val)
    if hasattr(x, '__trunc__') and not isinstance(x, (int, float, str)):
        return x.__trunc__()
    return int(x, *a)


def datetime_shim():
    """`datetime` as seen by the re-hosted io module: the real C implementation executed
    untraced on the (concrete) strings of each path.  CrossHair otherwise substitutes its own
    pure-Python datetime classes, which the C-level combine() refuses."""
    import types
    real = datetime

    class _Meta(type):
        def __instancecheck__(cls, obj):
            return isinstance(obj, real.datetime)

        def __subclasscheck__(cls, sub):
            return issubclass(sub, real.datetime)

    class DT(metaclass=_Meta):
        @staticmethod
        def strptime(s, fmt):
            with ch.NoTracing():
                return real.datetime.strptime(ch.realize(s), fmt)

        @staticmethod
        def combine(d, t):
            with ch.NoTracing():
                return real.datetime.combine(d, t)

    def date(y, m, d):
        with ch.NoTracing():
            return real.date(y, m, d)
    return types.SimpleNamespace(datetime=DT, date=date, time=real.time,
                                 timedelta=real.timedelta)


DTS = datetime_shim()


def load(B, text, D, events=None, time_col=None):
    """Load a sample whose TEXT segment is `text` (values: str, Kw, PnE)."""
    if events is None:
        events = [[1 + j for j in range(D)], [5 + j for j in range(D)]]
    full = {'$PAR': str(D), '$DATATYPE': 'I'}
    for p in range(1, D + 1):
        full['$P%dR' % p] = '1024'
        full['$P%dE' % p] = '0,0'
        full['$P%dN' % p] = 'CH%d' % p
    full.update(text)
    for k in [k for k, v in full.items() if v is None]:
        del full[k]
    if B.kind == 'model':
        io = B.FC.io
        np = B.np

        class StubFile(object):
            def __init__(self, infile):
                self.infile = infile
                self.text = dict(full)
                self.analysis = {}
                self.data = np.array(events, dtype='uint16')
                self.data.flags.writeable = False
        saved = io.FCSFile
        io.FCSFile = StubFile
        try:
            return catch(io.FCSData, 'stub.fcs')
        finally:
            io.FCSFile = saved
    rendered = {}
    for k, v in full.items():
        rendered[k] = v.render() if hasattr(v, 'render') else v
    names = [rendered.get('$P%dN' % p) for p in range(1, D + 1)]
    drop = [k for k in ('$P%dN' % p for p in range(1, D + 1)) if k not in rendered]
    drop += [k for k in ('$P%dE' % p for p in range(1, D + 1)) if k not in rendered]
    path = fcsgen.write_fcs(events, [16] * D, overrides=rendered, drop=tuple(drop))
    try:
        return catch(B.FC.io.FCSData, path)
    finally:
        os.unlink(path)


def num(B, name):
    """A symbolic number in the model, its realised value on replay."""
    return H.real(name)


def approx(B, a, b):
    if a is None or b is None:
        return a is None and b is None
    return bool(B.close(a, b, 1e-9))


# ------------------------------------------------------------------ time step

def body_timestep(B, I):
    ts_p, ts_wf, tt_p, tt_wf = I['ts_p'], I['ts_wf'], I['tt_p'], I['tt_wf']
    ts, tt = num(B, 'ts'), num(B, 'tt')
    text = {}
    if ts_p:
        text['$TIMESTEP'] = Kw(ts_wf, ts)
    if tt_p:
        text['TIMETICKS'] = Kw(tt_wf, tt)
    r = load(B, text, 2)
    if r[0] != 'ok':
        return False, 'time step: loading raised %s' % (r[1],), r[2]
    got = r[1].time_step
    if ts_p:
        exp = ts if ts_wf else None
    elif tt_p:
        exp = (tt / 1000.) if tt_wf else None
    else:
        exp = None
    H.mark('ts%d%d tt%d%d' % (ts_p, ts_wf, tt_p, tt_wf))
    if not approx(B, got, exp):
        return False, 'time step: attribute differs from the keyword'
    return True


def make_timestep(env):
    env.shadow('io', float=model_float, datetime=datetime_shim())
    return cond_fn('timestep', [('ts_p', 'bool'), ('ts_wf', 'bool'), ('tt_p', 'bool'),
                                ('tt_wf', 'bool')], body_timestep)


# ------------------------------------------------------------------ times and dates

HH = ['12', '23', '24', '7', '', 'xx']
MM = ['30', '60', '', 'x']
SS = ['45', '45.5', '45.25', '61', '4.x', '', '5']
TT = ['30', '59', '60', '0', 'xx', '', '-1']
DATES = ['01-JAN-20', '31-dec-2019', '20-Feb-29', '2021-Mar-05', '30-FEB-2020', '2020/01/01',
         '', '01-JAN-2020-x', '1-Jan-5']


HH4 = ['12', '24', 'xx']
MM4 = ['30', '60']
SS4 = ['45', '61', 'x', '5']


def mk_time(I, pfx):
    nf = I['nf']
    if nf == 0:
        return ''
    if nf == 4:
        f = [HH4[ch.pick(I[pfx + 'h'], 0, len(HH4))], MM4[ch.pick(I[pfx + 'm'], 0, len(MM4))],
             SS4[ch.pick(I[pfx + 's'], 0, len(SS4))], TT[ch.pick(I[pfx + 't'], 0, len(TT))]]
        return ':'.join(f)
    f = [HH[ch.pick(I[pfx + 'h'], 0, len(HH))], MM[ch.pick(I[pfx + 'm'], 0, len(MM))],
         SS[ch.pick(I[pfx + 's'], 0, len(SS))], '30', '0']
    return ':'.join(f[:nf])


def ref_time(s):
    """Independent recogniser of the three FCS time formats -> datetime.time or None."""
    if s is None:
        return None
    parts = s.split(':')

    def int2(x, hi):
        if len(x) in (1, 2) and x.isdigit() and int(x) <= hi:
            return int(x)
        return None
    if len(parts) == 3:
        h, m = int2(parts[0], 23), int2(parts[1], 59)
        sec = parts[2]
        us = 0
        if '.' in sec:
            a, _, b = sec.partition('.')
            if not (b.isdigit() and 1 <= len(b) <= 6):
                return None
            us = int((b + '000000')[:6])
            sec = a
        s_ = int2(sec, 61)
        if h is None or m is None or s_ is None or s_ > 59:
            return None
        return _mk_time(h, m, s_, us)
    if len(parts) == 4:
        h, m, s_ = int2(parts[0], 23), int2(parts[1], 59), int2(parts[2], 59)
        try:
            t = float(parts[3])
        except ValueError:
            return None
        if h is None or m is None or s_ is None:
            return None
        us = int(t * 1e6 / 60)
        if us < 0 or us > 999999:
            return None
        return _mk_time(h, m, s_, us)
    return None


def _mk_time(h, m, s_, us):
    with ch.NoTracing():
        return datetime.time(h, m, s_, us)


def ref_date(s):
    if s is None:
        return None
    for fmt in ('%d-%b-%y', '%d-%b-%Y', '%y-%b-%d', '%Y-%b-%d'):
        try:
            return DTS.datetime.strptime(s, fmt)
        except ValueError:
            pass
    return None


def body_times(B, I):
    bt_p, et_p, d_p = I['bt_p'], I['et_p'], I['d_p']
    bt = mk_time(I, 'b') if bt_p else None
    et = '12:30:50' if et_p else None
    if I['sym_end']:
        et, bt = (mk_time(I, 'b') if et_p else None), ('12:30:40' if bt_p else None)
    date = DATES[ch.pick(I['di'], 0, len(DATES))] if d_p else None
    text = {'$BTIM': bt, '$ETIM': et, '$DATE': date}
    r = load(B, text, 2)
    if r[0] != 'ok':
        return False, 'times: loading raised %s' % (r[1],), r[2]
    d = r[1]
    eb, ee, ed = ref_time(bt), ref_time(et), ref_date(date)
    if ed is not None:
        eb = DTS.datetime.combine(ed, eb) if eb is not None else None
        ee = DTS.datetime.combine(ed, ee) if ee is not None else None
    if d.acquisition_start_time != eb:
        return False, 'times: start time differs from $BTIM/$DATE'
    if d.acquisition_end_time != ee:
        return False, 'times: end time differs from $ETIM/$DATE'
    a = catch(lambda: d.acquisition_time)
    if a[0] != 'ok':
        return False, 'times: acquisition_time raised %s' % (a[1],), a[2]
    if eb is not None and ee is not None:
        dummy = DTS.date(2000, 1, 1)
        t0 = eb if isinstance(eb, DTS.datetime) else DTS.datetime.combine(dummy, eb)
        t1 = ee if isinstance(ee, DTS.datetime) else DTS.datetime.combine(dummy, ee)
        exp = (t1 - t0).total_seconds()
        H.mark('duration')
    else:
        exp = None
    if not approx(B, a[1], exp):
        return False, 'times: acquisition_time differs from end - start'
    return True


def make_times(sym_end, nf):
    def make(env):
        env.shadow('io', float=model_float, datetime=datetime_shim())
        if nf == 4:
            lim = (len(HH4), len(MM4), len(SS4), len(TT))
        else:
            lim = (len(HH), len(MM), len(SS), 1)
        params = [('d_p', 'bool')]
        pre = []
        names = ['bh', 'bm', 'bs', 'bt']
        consts = {'sym_end': sym_end, 'nf': nf, 'bt_p': True, 'et_p': True, 'di': 0,
                  'bh': 0, 'bm': 0, 'bs': 0, 'bt': 0}
        for k in range(min(nf, 4)):
            if lim[k] > 1:
                params.append((names[k], 'int'))
                pre.append('0 <= %s < %d' % (names[k], lim[k]))
                consts.pop(names[k])
        return cond_fn('times', params, body_times, pre=pre, consts=consts)
    return make


def make_dates(env):
    env.shadow('io', float=model_float, datetime=datetime_shim())
    return cond_fn('dates', [('bt_p', 'bool'), ('et_p', 'bool'), ('d_p', 'bool'), ('di', 'int')],
                   body_times, pre=['0 <= di < %d' % len(DATES)],
                   consts={'sym_end': False, 'nf': 3, 'bh': 0, 'bm': 0, 'bs': 1, 'bt': 0})


TIME_NAMES = ['Time', 'TIME', 'time', 'tIME', 'Time2', 'FSC']


def body_duration(B, I):
    """Precedence: time channel x time step, else start/end, else None; never raises."""
    ts_p, se_p = I['ts_p'], I['se_p']
    n0 = TIME_NAMES[ch.pick(I['n0'], 0, len(TIME_NAMES))]
    n1 = TIME_NAMES[ch.pick(I['n1'], 0, len(TIME_NAMES))]
    ts = num(B, 'ts')
    text = {'$P1N': n0, '$P2N': n1, '$DATE': '01-JAN-2020' if I['d_p'] else None}
    if ts_p:
        text['$TIMESTEP'] = Kw(True, ts)
    if se_p:
        text['$BTIM'] = '10:00:00'
        text['$ETIM'] = '10:00:30'
    events = [[3, 10], [4, 20], [9, 50]]
    r = load(B, text, 2, events=events)
    if r[0] != 'ok':
        return False, 'duration: loading raised %s' % (r[1],), r[2]
    d = r[1]
    is_time = [n.lower() == 'time' for n in (n0, n1)]
    a = catch(lambda: d.acquisition_time)
    if sum(is_time) > 1:
        H.mark('two-time-channels')
        return True               # excepted by the property
    if a[0] != 'ok':
        return False, 'duration: acquisition_time raised %s' % (a[1],), a[2]
    if sum(is_time) == 1 and ts_p:
        c = is_time.index(True)
        exp = (events[-1][c] - events[0][c]) * ts
        H.mark('from-time-channel')
    elif se_p:
        exp = 30.0
        H.mark('from-start-end')
    else:
        exp = None
        H.mark('absent')
    if not approx(B, a[1], exp):
        return False, 'duration: precedence time channel / start-end / absent violated'
    return True


def make_duration(env):
    env.shadow('io', float=model_float, datetime=datetime_shim())
    return cond_fn('duration', [('ts_p', 'bool'), ('se_p', 'bool'), ('d_p', 'bool'),
                                ('n0', 'int'), ('n1', 'int')], body_duration,
                   pre=['0 <= n0 < %d' % len(TIME_NAMES), '0 <= n1 < %d' % len(TIME_NAMES)])


# ------------------------------------------------------------------ voltage / gain fallbacks

CREATORS = [None, 'CellQuest Pro 5.1', 'FlowJoCollectorsEdition 7.5', 'Other', 'cellquest pro',
            'BD CellQuest Pro']


def body_fallback(B, I):
    D = 11
    i = ch.pick(I['i'], 1, D + 1)
    std_p, std_wf, fb_p, fb_wf = I['std_p'], I['std_wf'], I['fb_p'], I['fb_wf']
    creator = CREATORS[ch.pick(I['ci'], 0, len(CREATORS))]
    which = I['which']
    sv, fv = num(B, 'sv'), num(B, 'fv')
    text = {'CREATOR': creator}
    if which == 'voltage':
        stdk, fbk, marker = '$P%dV' % i, 'BD$WORD%d' % (12 + i), 'CellQuest Pro'
    else:
        stdk, fbk, marker = '$P%dG' % i, 'CytekP%02dG' % i, 'FlowJoCollectorsEdition'
    if std_p:
        text[stdk] = Kw(std_wf, sv)
    if fb_p:
        text[fbk] = Kw(fb_wf, fv)
    r = load(B, text, D)
    if r[0] != 'ok':
        return False, '%s: loading raised %s' % (which, r[1]), r[2]
    d = r[1]
    vals = d.detector_voltage() if which == 'voltage' else d.amplifier_gain()
    if std_p:
        exp = sv if std_wf else None
    elif creator is not None and marker in creator and fb_p:
        exp = fv if fb_wf else None
        H.mark('vendor-fallback')
    else:
        exp = None
    for j in range(D):
        e = exp if j == i - 1 else None
        if not approx(B, vals[j], e):
            return False, '%s: attribute differs from the standard keyword / vendor fallback' \
                % which
    one = d.detector_voltage(i - 1) if which == 'voltage' else d.amplifier_gain(i - 1)
    if not approx(B, one, exp):
        return False, '%s: single-channel accessor differs' % which
    return True


def make_fallback(which, std_p):
    def make(env):
        env.shadow('io', float=model_float, datetime=datetime_shim())
        return cond_fn('fallback', [('i', 'int'), ('std_wf', 'bool'),
                                    ('fb_p', 'bool'), ('fb_wf', 'bool'), ('ci', 'int')],
                       body_fallback, pre=['1 <= i <= 11', '0 <= ci < %d' % len(CREATORS)],
                       consts={'which': which, 'std_p': std_p})
    return make


# ------------------------------------------------------------------ names, labels, range, $PnE

def body_channels(B, I):
    n_p, s_p, e_p = I['n_p'], I['s_p'], I['e_p']
    a0, a1, R = num(B, 'a0'), num(B, 'a1'), I['R']
    n_p = True
    text = {'$P1N': 'FL1-H' if n_p else None, '$P1S': 'GFP' if s_p else None,
            '$P1R': Kw(True, R), '$P1E': PnE(a0, a1) if e_p else None}
    r = load(B, text, 2)
    if r[0] != 'ok':
        return False, 'channels: loading raised %s' % (r[1],), r[2]
    d = r[1]
    if d.channels != ('FL1-H' if n_p else None, 'CH2'):
        return False, 'channels: names differ from $PnN'
    if list(d.channel_labels()) != ['GFP' if s_p else None, None]:
        return False, 'channels: labels differ from $PnS'
    rng = d.range()
    if not (approx(B, rng[0][0], 0) and approx(B, rng[0][1], R - 1)) or \
            list(rng[1]) != [0., 1023.]:
        return False, 'channels: range is not [0, R-1]'
    if not approx(B, d.resolution()[0], R) or d.resolution()[1] != 1024:
        return False, 'channels: resolution is not R'
    at = d.amplification_type()
    if not e_p:
        if at[0] is not None:
            return False, 'channels: amplification type without $PnE'
    else:
        e1 = a1
        if bool(a0 != 0) and bool(a1 == 0):
            e1 = 1.0
            H.mark('a1-fixup')
        if not (approx(B, at[0][0], a0) and approx(B, at[0][1], e1)):
            return False, 'channels: amplification type differs from $PnE (a1=0 read as 1)'
    if tuple(at[1]) != (0.0, 0.0):
        return False, 'channels: second channel amplification type'
    return True


def make_channels(env):
    env.shadow('io', float=model_float, datetime=datetime_shim())
    return cond_fn('channels', [('n_p', 'bool'), ('s_p', 'bool'), ('e_p', 'bool'), ('R', 'int')],
                   body_channels, pre=['1 <= R <= 2 ** 30'])


def conditions(tier):
    q = tier == 'quick'
    mods = ('plot', 'io')
    return [
        Cond('timestep', make=make_timestep, replay=std_replay(body_timestep), timeout=120,
             modules=mods, doc='$TIMESTEP / TIMETICKS present/absent, well-/ill-formed -> '
                               'time_step = value, value/1000, or None; never an exception'),
    ] + [
        Cond('times_%s_nf%d' % ('end' if se else 'begin', nf), make=make_times(se, nf),
             replay=std_replay(body_times), timeout=400, modules=mods,
             doc='%s assembled from %d field tokens (valid, out-of-range, empty, non-numeric), '
                 'with and without $DATE: attribute == independent recogniser; loading and '
                 'acquisition_time never raise' % ('$ETIM' if se else '$BTIM', nf))
        for se in (False, True) for nf in (0, 1, 2, 3, 4, 5)
    ] + [
        Cond('dates', make=make_dates, replay=std_replay(body_times), timeout=300, modules=mods,
             doc='$DATE in 9 spellings (4 accepted formats, impossible date, wrong separators, '
                 'empty) x presence of $BTIM/$ETIM'),
        Cond('duration', make=make_duration, replay=std_replay(body_duration), timeout=300,
             modules=mods, doc='time channel (any letter case) x time step, else start/end, else '
                               'None; two time channels excepted'),
    ] + [
        Cond('%s_fallback_std%d' % (w, sp), make=make_fallback(w, bool(sp)),
             replay=std_replay(body_fallback), timeout=600, modules=mods,
             doc='%s: standard keyword %s; vendor fallback (BD$WORD(12+n) with CellQuest Pro / '
                 'CytekPnnG with FlowJoCollectorsEdition) only when the standard keyword is '
                 'absent; ill-formed -> None; channel n in 1..11'
                 % (w, 'present' if sp else 'absent'))
        for w in ('voltage', 'gain') for sp in (0, 1)
    ] + [
        Cond('channels', make=make_channels, replay=std_replay(body_channels), timeout=120,
             modules=mods, doc='$PnN, $PnS, range [0,R-1], resolution R, $PnE incl. a1=0 fix-up'),
    ]
