"""C08 - every gate returns exactly its documented predicate, applied as a mask."""
from typing import Tuple

from ..driver import Cond
from ..harness import H, Reject, catch
from .common import meta_of, is_sample, std_replay, mk_meta

INFO = {
    'explanation': 'Bounded symbolic execution (CrossHair 0.0.110 + z3) of the real source of '
                   'FlowCal.gate.start_end/high_low/ellipse re-hosted on the symnp NumPy model; '
                   'event values, counts, thresholds, channel selections and ellipse parameters '
                   'are solver variables; the postcondition is the documented predicate written '
                   'independently; every counterexample is replayed on the real library.',
    'functions': ['FlowCal.gate.start_end', 'FlowCal.gate.high_low', 'FlowCal.gate.ellipse',
                  'FlowCal.io.FCSData.__getitem__', 'FlowCal.io.FCSData._name_to_index',
                  'FlowCal.io.FCSData.__array_finalize__', 'FlowCal.io.FCSData.range'],
    'bounds': {'quick': {'start_end': 'N in 0..4 events, num_start/num_end unbounded ints',
                         'high_low': 'N=2 events x D=2 channels, values/thresholds unbounded '
                                     'ints or reals; 6 channel forms; thresholds given/None',
                         'ellipse': 'N=1 event (element-wise code), reals; rotation as (cos,sin) '
                                    'UFs with cos^2+sin^2=1; contour at 2 symbolic parameters'},
               'thorough': {'start_end': 'N in 0..6', 'high_low': 'N=3 x D=3',
                            'ellipse': 'N=2'}},
    'outside': ['IEEE rounding on the ellipse boundary (real-arithmetic model)',
                'larger N/D (row handling is element-wise in the model)'],
    'stubs': ['np.linspace(0,1,100) in ellipse replaced by symbolic parameters t in [0,1] for the '
              'contour condition'],
    'assumptions': ['cos(x)^2+sin(x)^2=1; log10/pow10 strictly increasing and mutually inverse'],
}

VALS = [[10, 11], [20, 21], [30, 31], [40, 41], [50, 51], [60, 61]]


# --------------------------------------------------------------------- start_end

def body_start_end(B, I):
    n, s, e, as_sample, full = I['n'], I['s'], I['e'], I['as_sample'], I['full']
    rows = [list(r) for r in VALS[:n]]
    if as_sample:
        m = mk_meta(2)
        data = B.sample(rows, 'int64', **m) if n else B.sample(B.np.zeros((0, 2), dtype='int64'), None, **m)
    else:
        data = B.arr(rows, 'int64') if n else B.np.zeros((0, 2), dtype='int64')
    before = meta_of(data) if as_sample else None
    s0 = s if s > 0 else 0
    e0 = e if e > 0 else 0
    r = catch(B.FC.gate.start_end, data, num_start=s, num_end=e, full_output=full)
    if s0 + e0 > n:
        H.mark('error-branch')
        return (r[0] == 'exc' and r[1] == 'ValueError'), 'start_end: expected ValueError, got %s' % (r[:2],)
    if r[0] != 'ok':
        return False, 'start_end: unexpected %s' % (r[1],)
    H.mark('gated')
    out = r[1]
    exp_mask = [bool(s0 <= i and i < n - e0) for i in range(n)]
    exp_rows = [rows[i] for i in range(n) if exp_mask[i]]
    if full:
        mask = B.tolist(out.mask)
        if [bool(x) for x in mask] != exp_mask:
            return False, 'start_end: mask differs from documented window'
        gated = out.gated_data
    else:
        gated = out
    if B.tolist(gated) != exp_rows:
        return False, 'start_end: gated_data is not data[mask]'
    if as_sample:
        if not is_sample(B, gated) or meta_of(gated) != before or meta_of(data) != before:
            return False, 'start_end: metadata changed'
    return True


def make_start_end(env):
    def start_end(n: int, s: int, e: int, as_sample: bool, full: bool) -> bool:
        """
        pre: 0 <= n <= 4
        post: _
        """
        return H.run('start_end', dict(n=n, s=s, e=e, as_sample=as_sample, full=full),
                     body_start_end)
    return start_end


def make_start_end_t(env):
    def start_end(n: int, s: int, e: int, as_sample: bool, full: bool) -> bool:
        """
        pre: 0 <= n <= 6
        post: _
        """
        return H.run('start_end', dict(n=n, s=s, e=e, as_sample=as_sample, full=full),
                     body_start_end)
    return start_end


# --------------------------------------------------------------------- high_low

def _chan_form(form, D, names):
    """(channels argument, list of selected column positions)."""
    if form == 0:
        return None, list(range(D))
    if form == 1:
        return 0, [0]
    if form == 2:
        return names[1], [1]
    if form == 3:
        return [1, 0], [1, 0]
    if form == 4:
        return [names[0], 1], [0, 1]
    if form == 5:
        return [names[D - 1]], [D - 1]
    if form == 6:
        return -1, [D - 1]
    raise Reject()


def body_high_low(B, I):
    xs, form = I['xs'], I['form']
    N, D = I['N'], I['D']
    as_sample, full = I['as_sample'], I['full']
    hi_given, lo_given = I['hi_given'], I['lo_given']
    hi, lo = I['hi'], I['lo']
    rng = I['rng']
    rows = [[xs[i * D + j] for j in range(D)] for i in range(N)]
    m = mk_meta(D)
    m['range'] = [[rng[2 * j], rng[2 * j + 1]] for j in range(D)]
    if as_sample:
        data = B.sample(rows, 'int64', **m)
    else:
        data = B.arr(rows, 'int64')
        if form in (2, 4, 5):
            raise Reject()          # names need a sample
    chans, cols = _chan_form(form, D, m['channels'])
    before = meta_of(data) if as_sample else None
    kw = {}
    if hi_given:
        kw['high'] = hi
    if lo_given:
        kw['low'] = lo
    r = catch(B.FC.gate.high_low, data, channels=chans, full_output=full, **kw)
    if r[0] != 'ok':
        return False, 'high_low: unexpected %s' % (r[1],)
    out = r[1]
    from .. import ch
    exp_mask = []
    for i in range(N):
        keep = True
        for c in cols:
            if hi_given:
                h = hi
            elif as_sample:
                h = m['range'][c][1]
            else:
                h = None
            if lo_given:
                l = lo
            elif as_sample:
                l = m['range'][c][0]
            else:
                l = None
            x = rows[i][c]
            if h is not None:
                keep = ch.b_and(keep, x < h)
            if l is not None:
                keep = ch.b_and(keep, x > l)
        exp_mask.append(bool(keep))
    H.mark('hi' if hi_given else 'hi-default')
    H.mark('lo' if lo_given else 'lo-default')
    exp_rows = [rows[i] for i in range(N) if exp_mask[i]]
    if full:
        if [bool(v) for v in B.tolist(out.mask)] != exp_mask:
            return False, 'high_low: mask differs from strict predicate'
        gated = out.gated_data
    else:
        gated = out
    if B.tolist(gated) != exp_rows:
        return False, 'high_low: gated_data is not data[mask]'
    if as_sample:
        if not is_sample(B, gated) or meta_of(gated) != before or meta_of(data) != before:
            return False, 'high_low: metadata changed'
    return True


B62 = 2 ** 62


def make_high_low(N, D, form):
    def make(env):
        if (N, D) == (2, 2):
            def high_low(xs: Tuple[int, int, int, int], as_sample: bool, full: bool,
                         hi_given: bool, lo_given: bool, hi: int, lo: int,
                         rng: Tuple[int, int, int, int]) -> bool:
                """
                pre: all(-B62 <= v <= B62 for v in xs)
                post: _
                """
                return H.run('high_low', dict(xs=xs, form=form, N=2, D=2, as_sample=as_sample,
                                              full=full, hi_given=hi_given, lo_given=lo_given,
                                              hi=hi, lo=lo, rng=rng), body_high_low)
            return high_low

        def high_low3(xs: Tuple[int, int, int, int, int, int, int, int, int],
                      as_sample: bool, full: bool, hi_given: bool, lo_given: bool, hi: int,
                      lo: int, rng: Tuple[int, int, int, int, int, int]) -> bool:
            """
            pre: all(-B62 <= v <= B62 for v in xs)
            post: _
            """
            return H.run('high_low', dict(xs=xs, form=form, N=3, D=3, as_sample=as_sample,
                                          full=full, hi_given=hi_given, lo_given=lo_given,
                                          hi=hi, lo=lo, rng=rng), body_high_low)
        return high_low3
    return make


def body_high_low_real(B, I):
    """Float events (RealT) on a plain array and a sample, explicit and default thresholds."""
    as_sample, hi_given, lo_given = I['as_sample'], I['hi_given'], I['lo_given']
    x0, x1 = H.real('x0'), H.real('x1')
    hi, lo = H.real('hi'), H.real('lo')
    r0, r1 = H.real('r0'), H.real('r1')
    rows = [[x0, 5.0], [x1, 5.0]]
    m = mk_meta(2)
    m['range'] = [[r0, r1], [0.0, 10.0]]
    data = B.sample(rows, 'float64', **m) if as_sample else B.arr(rows, 'float64')
    kw = {}
    if hi_given:
        kw['high'] = hi
    if lo_given:
        kw['low'] = lo
    r = catch(B.FC.gate.high_low, data, channels=0, full_output=True, **kw)
    if r[0] != 'ok':
        return False, 'high_low(float): unexpected %s' % (r[1],)
    mask = B.tolist(r[1].mask)
    from .. import ch
    for i, x in enumerate((x0, x1)):
        keep = True
        h = hi if hi_given else (r1 if as_sample else None)
        l = lo if lo_given else (r0 if as_sample else None)
        if h is not None:
            keep = ch.b_and(keep, x < h)
        if l is not None:
            keep = ch.b_and(keep, x > l)
        if bool(mask[i]) != bool(keep):
            return False, 'high_low(float): mask differs from strict predicate'
    return True


SPECIALS = [float('nan'), float('inf'), float('-inf'), 1.0, 2.0, 3.0, 1.5]
THRESH = [None, 1.0, 2.0, 3.0, float('inf'), float('-inf')]


def body_high_low_special(B, I):
    """IEEE special values (NaN, +-inf) and exact threshold hits, chosen by index."""
    import math
    i0, i1, ih, il, as_sample = I['i0'], I['i1'], I['ih'], I['il'], I['as_sample']
    from .. import ch
    x0, x1 = SPECIALS[ch.pick(i0, 0, 7)], SPECIALS[ch.pick(i1, 0, 7)]
    hi, lo = THRESH[ch.pick(ih, 0, 6)], THRESH[ch.pick(il, 0, 6)]
    rows = [[x0, 2.0], [x1, 2.0]]
    m = mk_meta(2)
    m['range'] = [[1.0, 3.0], [0.0, 10.0]]
    data = B.sample(rows, 'float64', **m) if as_sample else B.arr(rows, 'float64')
    kw = {}
    if hi is not None:
        kw['high'] = hi
    if lo is not None:
        kw['low'] = lo
    r = catch(B.FC.gate.high_low, data, channels=[0], full_output=True, **kw)
    if r[0] != 'ok':
        return False, 'high_low(special): unexpected %s' % (r[1],)
    mask = [bool(v) for v in B.tolist(r[1].mask)]
    h = hi if hi is not None else (3.0 if as_sample else float('inf'))
    l = lo if lo is not None else (1.0 if as_sample else float('-inf'))
    exp = [(l < x < h) for x in (x0, x1)]        # IEEE: NaN is never strictly between
    if mask != exp:
        return False, 'high_low(special): mask differs from strict predicate'
    got = B.tolist(r[1].gated_data)
    if len(got) != sum(exp):
        return False, 'high_low(special): gated_data is not data[mask]'
    return True


def make_high_low_special(as_sample):
    def make(env):
        def high_low_special(i0: int, ih: int, il: int) -> bool:
            """
            pre: 0 <= i0 < 7 and 0 <= ih < 6 and 0 <= il < 6
            post: _
            """
            return H.run('high_low_special', dict(i0=i0, i1=3, ih=ih, il=il, as_sample=as_sample),
                         body_high_low_special)
        return high_low_special
    return make


def make_high_low_real(env):
    def high_low_real(as_sample: bool, hi_given: bool, lo_given: bool) -> bool:
        """
        post: _
        """
        return H.run('high_low_real', dict(as_sample=as_sample, hi_given=hi_given,
                                           lo_given=lo_given), body_high_low_real)
    return high_low_real


# --------------------------------------------------------------------- ellipse

def body_ellipse(B, I):
    log, as_sample, N = I['log'], I['as_sample'], I['N']
    np = B.np
    pts = [[H.real('x%d' % i), H.real('y%d' % i)] for i in range(N)]
    cx, cy, a, b, th = H.real('cx'), H.real('cy'), H.real('a'), H.real('b'), H.real('theta')
    if B.kind == 'model':
        if not (a > 0) or not (b > 0):
            raise Reject()
        if log:
            for p in pts:
                if not (p[0] > 0) or not (p[1] > 0):
                    raise Reject()
    else:
        if not (a > 0 and b > 0):
            return True
        if log and any(p[0] <= 0 or p[1] <= 0 for p in pts):
            return True
    rows = [[p[0], 7.0, p[1]] for p in pts]
    m = mk_meta(3)
    data = B.sample(rows, 'float64', **m) if as_sample else B.arr(rows, 'float64')
    chans = [m['channels'][0], 2] if as_sample else [0, 2]
    before = meta_of(data) if as_sample else None
    r = catch(B.FC.gate.ellipse, data, chans, center=[cx, cy], a=a, b=b, theta=th, log=log,
              full_output=True)
    if r[0] != 'ok':
        return False, 'ellipse: unexpected %s' % (r[1],)
    out = r[1]
    c, s = np.cos(th), np.sin(th)
    mask = B.tolist(out.mask)
    exp_rows = []
    for i, p in enumerate(pts):
        px, py = (np.log10(p[0]), np.log10(p[1])) if log else (p[0], p[1])
        dx, dy = px - cx, py - cy
        u = (dx * c + dy * s) / a
        v = (-dx * s + dy * c) / b
        q = u * u + v * v
        if B.kind == 'real' and abs(float(q) - 1.0) <= 1e-9:
            exp_rows.append(rows[i]) if mask[i] else None
            continue
        inside = bool(q <= 1)
        if bool(mask[i]) != inside:
            return False, 'ellipse: mask differs from quadratic form'
        if inside:
            exp_rows.append(rows[i])
    got = B.tolist(out.gated_data)
    if len(got) != len(exp_rows) or any(not _rows_close(B, g, e) for g, e in zip(got, exp_rows)):
        return False, 'ellipse: gated_data is not data[mask]'
    if as_sample and (meta_of(out.gated_data) != before or meta_of(data) != before):
        return False, 'ellipse: metadata changed'
    short = catch(B.FC.gate.ellipse, data, chans, center=[cx, cy], a=a, b=b, theta=th, log=log)
    if short[0] != 'ok':
        return False, 'ellipse: short form raised'
    got2 = B.tolist(short[1])
    if len(got2) != len(got) or any(not _rows_close(B, g, e) for g, e in zip(got2, got)):
        return False, 'ellipse: short form differs from full form'
    return True


def _rows_close(B, r1, r2):
    if len(r1) != len(r2):
        return False
    for a, b in zip(r1, r2):
        if not B.close(a, b):
            return False
    return True


def make_ellipse(N):
    def make(env):
        def ellipse(log: bool, as_sample: bool) -> bool:
            """
            post: _
            """
            return H.run('ellipse', dict(log=log, as_sample=as_sample, N=N), body_ellipse)
        return ellipse
    return make


def body_ellipse_contour(B, I):
    """Contour point for parameter t is centre + Rot(theta)(a cos 2pi t, b sin 2pi t)."""
    import math
    log = I['log']
    np = B.np
    cx, cy, a, b, th = H.real('cx'), H.real('cy'), H.real('a'), H.real('b'), H.real('theta')
    if B.kind == 'model':
        if not (a > 0) or not (b > 0):
            raise Reject()
        ts = [H.real('t0'), H.real('t1')]
        orig = B.FC.gate.np.linspace

        def lin(lo, hi, n):
            if (lo, hi, n) != (0, 1, 100):
                return orig(lo, hi, n)
            H.mark('linspace(0,1,100)')
            return np.array(ts)
        shadow = _NPShadow(B.FC.gate.np, linspace=lin)
        B.FC.gate.np = shadow
        try:
            r = catch(B.FC.gate.ellipse, np.array([[1.0, 1.0]]), [0, 1], center=[cx, cy], a=a, b=b,
                      theta=th, log=log, full_output=True)
        finally:
            B.FC.gate.np = shadow._base
    else:
        if not (a > 0 and b > 0):
            return True
        r = catch(B.FC.gate.ellipse, np.array([[1.0, 1.0]]), [0, 1], center=[cx, cy], a=a, b=b,
                  theta=th, log=log, full_output=True)
        ts = [float(v) for v in np.linspace(0, 1, 100)]
    if r[0] != 'ok':
        return False, 'ellipse contour: unexpected %s' % (r[1],)
    cont = r[1].contour
    if len(cont) != 1:
        return False, 'ellipse contour: not a single closed curve'
    pts = B.tolist(cont[0])
    if len(pts) != len(ts):
        return False, 'ellipse contour: wrong number of points'
    c, s = np.cos(th), np.sin(th)
    for t, p in zip(ts, pts):
        phi = t * 2 * math.pi
        ex = cx + (a * np.cos(phi) * c - b * np.sin(phi) * s)
        ey = cy + (a * np.cos(phi) * s + b * np.sin(phi) * c)
        if log:
            ex, ey = 10 ** ex, 10 ** ey
        if B.kind == 'model':
            if not (p[0] == ex) or not (p[1] == ey):
                return False, 'ellipse contour: point off the ellipse'
        else:
            sc = max(abs(float(ex)), abs(float(ey)), 1e-300)
            if abs(float(p[0]) - float(ex)) > 1e-7 * sc or abs(float(p[1]) - float(ey)) > 1e-7 * sc:
                return False, 'ellipse contour: point off the ellipse'
    return True


class _NPShadow(object):
    """np namespace with a few names replaced (for one call)."""

    def __init__(self, base, **over):
        self._base = base
        self._over = over

    def __getattr__(self, k):
        o = self.__dict__['_over']
        if k in o:
            return o[k]
        return getattr(self.__dict__['_base'], k)


def make_ellipse_contour(env):
    def ellipse_contour(log: bool) -> bool:
        """
        post: _
        """
        return H.run('ellipse_contour', dict(log=log), body_ellipse_contour)
    return ellipse_contour


def body_errors(B, I):
    """Wrong number of channels for ellipse -> ValueError."""
    k = I['k']
    data = B.arr([[1.0, 2.0, 3.0], [4.0, 5.0, 6.0]], 'float64')
    chans = [0, 1, 2][:k]
    r = catch(B.FC.gate.ellipse, data, chans, center=[0, 0], a=1.0, b=1.0)
    if k != 2:
        return (r[0] == 'exc' and r[1] == 'ValueError'), 'ellipse: %d channels accepted' % k
    return r[0] == 'ok', 'ellipse: 2 channels refused %s' % (r[1:],)


def make_errors(env):
    def ellipse_errors(k: int) -> bool:
        """
        pre: 0 <= k <= 3
        post: _
        """
        return H.run('ellipse_errors', dict(k=k), body_errors)
    return ellipse_errors


def conditions(tier):
    q = tier == 'quick'
    cs = [
        Cond('start_end', make=make_start_end if q else make_start_end_t,
             replay=std_replay(body_start_end), timeout=120 if q else 600,
             doc='mask[i] <=> max(s,0) <= i < N-max(e,0); ValueError iff max(s,0)+max(e,0) > N; '
                 'plain array and sample; short and full form'),
    ] + [
        Cond('high_low_form%d' % f, make=make_high_low(2, 2, f), replay=std_replay(body_high_low),
             timeout=240 if q else 900,
             doc='strict predicate in all chosen channels, thresholds explicit/None, defaults '
                 'from range (sample) or unlimited (array); channel form %d of 0..6 '
                 '(None,int,name,[ints],[name,int],[name],-1)' % f) for f in range(7)
    ] + [
        Cond('high_low_real', make=make_high_low_real, replay=std_replay(body_high_low_real),
             timeout=120, doc='same predicate on real-valued events'),
    ] + [
        Cond('high_low_special_%s' % ('sample' if a else 'array'), make=make_high_low_special(a),
             replay=std_replay(body_high_low_special), timeout=300,
             doc='NaN, +-inf and exact threshold hits as event values/thresholds (symbolic index '
                 'into a fixed table of IEEE special values)') for a in (False, True)
    ] + [
        Cond('ellipse', make=make_ellipse(1 if q else 2), replay=std_replay(body_ellipse),
             timeout=240 if q else 900,
             doc='inside-or-on <=> ((dx c+dy s)/a)^2+((-dx s+dy c)/b)^2 <= 1, log10 space when '
                 'requested; gated == data[mask]; short == full'),
        Cond('ellipse_contour', make=make_ellipse_contour,
             replay=std_replay(body_ellipse_contour), timeout=120,
             doc='contour(t) = centre + Rot(theta)(a cos 2pi t, b sin 2pi t), 10** when log'),
        Cond('ellipse_errors', make=make_errors, replay=std_replay(body_errors), timeout=60,
             doc='number of channels != 2 -> ValueError'),
    ]
    if not q:
        for f in range(7):
            cs.append(Cond('high_low_3x3_form%d' % f, make=make_high_low(3, 3, f),
                           replay=std_replay(body_high_low), timeout=1500, doc='N=3, D=3'))
    return cs
