"""C10 - Excel results equal the documented library steps applied by hand (orchestration level).

Free-term execution: the library steps (load, to_rfi, bead calibration, gates, statistics,
hist_bins, histogram) are term constructors over opaque sample terms, so an equality proved
between the orchestrator's result and the hand-written composition holds for every
interpretation of the steps (whose own behaviour is C03/C05/C06/C08/C12/C19).
"""
import collections
import types
import warnings

from ..driver import Cond
from ..harness import H, Reject, catch, cond_fn
from .. import ch
from .. import minipandas as mpd
from ..symnp.scalars import TermT
from .common import std_replay

INFO = {
    'explanation': 'CrossHair executes the real source of excel_ui.process_samples_table, '
                   'process_beads_table, add_samples_stats, add_beads_stats and '
                   'generate_histograms_table on a ~150-line pandas stand-in, with every library '
                   'step replaced by a free term constructor over opaque sample terms.  Units '
                   'strings are chosen by symbolic indices from a table with case variants, '
                   'padding and unknown spellings; data type, event counts, gate fractions, the '
                   'instrument of each row and the presence of bead calibration are symbolic.  '
                   'The oracle builds the documented hand composition as a term.',
    'functions': ['FlowCal.excel_ui.process_samples_table', 'FlowCal.excel_ui.process_beads_table',
                  'FlowCal.excel_ui.add_samples_stats', 'FlowCal.excel_ui.add_beads_stats',
                  'FlowCal.excel_ui.generate_histograms_table'],
    'bounds': {'quick': {'instruments': 2, 'bead rows': '0-1', 'sample rows': 2,
                         'units': '13 spellings per channel', 'fluorescence channels': 2},
               'thorough': {}},
    'outside': ['numeric content of each step (other properties)', 'pandas/openpyxl I/O, plots',
                'that histogram counts sum to the number of events within the edges (np.histogram)'],
    'stubs': ['pandas -> vf/minipandas.py', 'FlowCal.io/transform/gate/stats/mef -> free term '
              'constructors', 'np.any on a term -> symbolic boolean'],
    'assumptions': ['library steps are deterministic functions of their arguments'],
}

UNITS = [None, 'Channel', 'RFI', 'a.u.', 'au', 'MEF', 'mef', ' Rfi ', 'A.U.', 'channel ',
         'furlongs', 'RF', ' ']
INSTR = {
    'I1': {'Forward Scatter Channel': 'FSC', 'Side Scatter Channel': 'SSC',
           'Fluorescence Channels': 'FL1, FL2'},
    'I2': {'Forward Scatter Channel': 'FSC-A', 'Side Scatter Channel': 'SSC-A',
           'Fluorescence Channels': 'GFP,FL2'},
}
GATED_N = 321


class Seq(object):
    """Opaque sequence term with a concrete length (bin edges / centres / counts)."""
    _vf_seq = True

    def __init__(self, term, n):
        self.term, self.n = term, n

    def __len__(self):
        return self.n

    def __getitem__(self, k):
        if isinstance(k, slice):
            idx = range(self.n)[k]
            return Seq(TermT('slice', self.term, k.start, k.stop, k.step), len(idx))
        if k < 0 or k >= self.n:
            raise IndexError(k)
        return TermT('item', self.term, k)

    def item(self, i):
        return TermT('item', self.term, i)

    def __eq__(self, o):
        return isinstance(o, Seq) and self.term == o.term and self.n == o.n

    def __hash__(self):
        return hash(self.term)


class Col(object):
    def __init__(self, term):
        self.term = term

    def __le__(self, o):
        return Mask(TermT('le', self.term, o))

    def __gt__(self, o):
        return Mask(TermT('gt', self.term, o))


class Mask(object):
    def __init__(self, term):
        self.term = term


class Sample(object):
    """Opaque sample term with the few inspections the orchestrator makes."""

    def __init__(self, world, term, n, data_type, file):
        self.w, self.term, self.n, self.data_type, self.file = world, term, n, data_type, file

    @property
    def shape(self):
        return (self.n, 3)

    def derive(self, term, n=None):
        return Sample(self.w, term, self.n if n is None else n, self.data_type, self.file)

    def __getitem__(self, key):
        if isinstance(key, Mask):
            return self.derive(TermT('rows', self.term, key.term), GATED_N - 7)
        if isinstance(key, tuple) and len(key) == 2 and key[0] == slice(None):
            return Col(TermT('col', self.term, key[1]))
        raise KeyError(key)

    def amplification_type(self, ch_):
        return self.w.amp_type(self.file, ch_)

    def detector_voltage(self, ch_):
        return self.w.voltage(self.file, ch_)

    def resolution(self, ch_):
        return 8

    @property
    def acquisition_time(self):
        return TermT('acquisition_time', self.term)

    def hist_bins(self, channels, nbins, scale):
        return Seq(TermT('hist_bins', self.term, channels, nbins, scale), nbins + 1)

    def __eq__(self, o):
        return isinstance(o, Sample) and self.term == o.term

    def __hash__(self):
        return hash(self.term)


def T(x):
    return tuple(x) if isinstance(x, list) else x


class World(object):
    """Symbolic experiment: files, tables and the term-level FlowCal namespace."""

    def __init__(self, B, files, anybits=None):
        self.B = B
        self.files = files            # name -> dict(missing, n, data_type, amp_log, voltage)
        self.anybits = anybits or {}
        self.mef_calls = []
        self.warned = []

    def amp_type(self, file, ch_):
        return (4.0, 1.0) if self.files[file].get('amp_log', {}).get(ch_, False) else (0.0, 0.0)

    def voltage(self, file, ch_):
        return self.files[file].get('voltage', {}).get(ch_, 500)

    # ---- term-level library
    def namespace(self, excel_ui):
        w = self

        def FCSData(filename):
            name = filename.replace('./', '').replace('.\\\\', '')
            f = w.files.get(name)
            if f is None or f['missing']:
                raise IOError('no such file')
            return Sample(w, TermT('load', name), f['n'], f['data_type'], name)

        def to_rfi(s, channels=None, **kw):
            return s.derive(TermT('to_rfi', s.term, T(channels)))

        def start_end(s, num_start=250, num_end=100, full_output=False):
            return s.derive(TermT('start_end', s.term, num_start, num_end), GATED_N + 50)

        def high_low(s, channels=None, high=None, low=None, full_output=False):
            return s.derive(TermT('high_low', s.term, T(channels), high, low), GATED_N + 20)

        D2 = collections.namedtuple('D2', ['gated_data', 'mask', 'contour', 'bin_edges',
                                           'bin_mask'])

        def density2d(data, channels=[0, 1], bins=1024, gate_fraction=0.65, xscale='logicle',
                      yscale='logicle', sigma=10.0, bin_mask=None, full_output=False):
            if gate_fraction < 0 or gate_fraction > 1:
                raise ValueError('gate fraction should be between 0 and 1, inclusive')
            g = data.derive(TermT('density2d', data.term, T(channels), gate_fraction, xscale,
                                  yscale, sigma, bins), GATED_N)
            if full_output:
                return D2(g, None, 'contour', None, None)
            return g

        def stat(name):
            def f(s, channels=None):
                return TermT(name, s.term, T(channels))
            return f

        def get_transform_fxn(data_beads, mef_values, mef_channels, **kw):
            w.mef_calls.append((data_beads.term, _tolist(mef_values), list(mef_channels), dict(kw)))
            tag = TermT('calibration', data_beads.term, _tolist(mef_values), tuple(mef_channels),
                        T(kw.get('clustering_channels')))

            def fxn(s, channels):
                chs = channels if isinstance(channels, (list, tuple)) else [channels]
                for c in chs:
                    if c not in mef_channels:
                        raise ValueError('no standard curve for channel %s' % c)
                return s.derive(TermT('to_mef', tag, s.term, T(channels)))
            fxn.tag = tag
            if kw.get('full_output'):
                MO = collections.namedtuple('MO', ['mef_channels', 'transform_fxn', 'fitting'])
                fit = {'beads_model_str': ['model'] * len(mef_channels),
                       'beads_params_names': [['m', 'b']] * len(mef_channels),
                       'beads_params': [[1.0, 2.0]] * len(mef_channels)}
                return MO(list(mef_channels), fxn, fit)
            return fxn
        ns = types.SimpleNamespace(
            io=types.SimpleNamespace(FCSData=FCSData),
            transform=types.SimpleNamespace(to_rfi=to_rfi),
            gate=types.SimpleNamespace(start_end=start_end, high_low=high_low,
                                       density2d=density2d),
            stats=types.SimpleNamespace(**{n: stat(n) for n in (
                'mean', 'gmean', 'median', 'mode', 'std', 'cv', 'gstd', 'gcv', 'iqr', 'rcv')}),
            mef=types.SimpleNamespace(get_transform_fxn=get_transform_fxn),
            plot=types.SimpleNamespace(), __version__='term')
        return ns

    def np_shadow(self, base):
        w = self

        class NP(object):
            nan = float('nan')

            def __getattr__(self_, k):
                return getattr(base, k)

            def any(self_, x, *a, **kw):
                if isinstance(x, Mask):
                    return bool(w.anybits.get(repr(x.term), False)) if not callable(w.anybits) \
                        else w.anybits(x.term)
                return base.any(x, *a, **kw)

            def histogram(self_, a, bins=10, **kw):
                if isinstance(a, Col):
                    return Seq(TermT('histogram', a.term, bins.term), len(bins) - 1), None
                return base.histogram(a, bins=bins, **kw)
        return NP()


def _tolist(x):
    if hasattr(x, 'tolist'):
        x = x.tolist()
    if isinstance(x, (list, tuple)):
        return tuple(_tolist(v) for v in x)
    if isinstance(x, float) and x != x:
        return 'nan'
    return getattr(x, 'v', x)


def install(B, world):
    """Point the re-hosted excel_ui at the term-level library (and the real one back on exit)."""
    xl = B.FC.excel_ui
    saved = (xl.FlowCal, xl.np)
    xl.FlowCal = world.namespace(xl)
    xl.np = world.np_shadow(saved[1])
    return saved


def restore(B, saved):
    xl = B.FC.excel_ui
    xl.FlowCal, xl.np = saved


def instruments_table():
    ids = list(INSTR)
    cols = list(INSTR['I1'])
    return mpd.DataFrame({c: [INSTR[i][c] for i in ids] for c in cols}, index=mpd.Index(ids, 'ID'))


def expected_sample(row, instr, world, mef_fxns, beads_table=None):
    """Hand composition of the documented steps -> ('ok', Sample-term, report) | ('err',)"""
    sc = [INSTR[instr]['Forward Scatter Channel'], INSTR[instr]['Side Scatter Channel']]
    fl = [s.strip() for s in INSTR[instr]['Fluorescence Channels'].split(',')]
    f = world.files.get(row['File Path'])
    if f is None or f['missing'] or f['n'] < 400:
        return ('err',)
    t = TermT('load', row['File Path'])
    t = TermT('to_rfi', t, tuple(sc))
    report = []
    for c in fl:
        key = c + ' Units'
        if key not in row or row[key] is None:
            continue
        u = row[key].strip().lower()
        if u == 'channel':
            pass
        elif u in ('rfi', 'a.u.', 'au'):
            t = TermT('to_rfi', t, c)
        elif u == 'mef':
            fx = mef_fxns.get(row.get('Beads ID'))
            if fx is None:
                return ('err',)
            if c not in fx.tag.args[2]:
                return ('err',)
            t = TermT('to_rfi', t, c)
            t = TermT('to_mef', fx.tag, t, c)
        else:
            return ('err',)
        report.append(c)
    t = TermT('start_end', t, 250, 100)
    if f['data_type'] == 'I':
        t = TermT('high_low', t, tuple(sc + report), None, None)
    gf = row['Gate Fraction']
    if gf < 0 or gf > 1:
        return ('err',)
    t = TermT('density2d', t, tuple(sc), gf, 'logicle', 'logicle', 10.0, 1024)
    return ('ok', t, report)


def mk_samples_table(rows):
    cols = ['Instrument ID', 'File Path', 'Gate Fraction', 'Beads ID', 'FL1 Units', 'FL2 Units',
            'GFP Units']
    ids = [r['ID'] for r in rows]
    return mpd.DataFrame({c: [r.get(c) for r in rows] for c in cols}, index=mpd.Index(ids, 'ID'))


def body_samples(B, I):
    if B.kind == 'real':
        return replay_samples(B, I)
    gf = [0.3, 0.85]
    dt0 = 'I' if I['int0'] else 'F'
    dt1 = 'I' if I['int1'] else 'F'
    files = {'s1.fcs': dict(missing=False, n=I['n0'], data_type=dt0),
             's2.fcs': dict(missing=False, n=5000, data_type=dt1),
             'b1.fcs': dict(missing=False, n=5000, data_type='I')}
    world = World(B, files)
    u = [UNITS[ch.pick(I['u0'], 0, len(UNITS))], UNITS[ch.pick(I['u1'], 0, len(UNITS))], 'MEF']
    inst2 = 'I2' if I['other_instr'] else 'I1'
    rows = [dict(ID='S1', **{'Instrument ID': 'I1', 'File Path': 's1.fcs', 'Gate Fraction': gf[0],
                             'Beads ID': 'B1', 'FL1 Units': u[0], 'FL2 Units': u[1],
                             'GFP Units': None}),
            dict(ID='S2', **{'Instrument ID': inst2, 'File Path': 's2.fcs',
                             'Gate Fraction': gf[1], 'Beads ID': 'B1', 'FL1 Units': None,
                             'FL2 Units': u[2], 'GFP Units': u[0] if inst2 == 'I2' else None})]
    table = mk_samples_table(rows)
    saved = install(B, world)
    try:
        ns = B.FC.excel_ui.FlowCal
        have_beads = I['have_beads']
        beads_gated = Sample(world, TermT('beads-gated'), GATED_N, 'I', 'b1.fcs')
        fxn = ns.mef.get_transform_fxn(beads_gated, [[0, 10]], ['FL1'],
                                       clustering_channels=['FL1']) if have_beads else None
        fxns = {'B1': fxn}
        r = catch(B.FC.excel_ui.process_samples_table, table, instruments_table(),
                  mef_transform_fxns=fxns, beads_table=None, base_dir='.', verbose=False,
                  plot=False)
    finally:
        restore(B, saved)
    if r[0] != 'ok':
        return False, 'process_samples_table raised %s' % r[1], r[2]
    res = r[1]
    if list(res.keys()) != ['S1', 'S2']:
        return False, 'results are not keyed by the row identifiers in table order'
    Exc = B.FC.excel_ui.ExcelUIException
    for row in rows:
        exp = expected_sample(row, row['Instrument ID'], world, fxns)
        got = res[row['ID']]
        if exp[0] == 'err':
            H.mark('row-error')
            if not isinstance(got, Exc):
                return False, 'a row the documented steps cannot process did not become a row error'
            continue
        if isinstance(got, Exc):
            return False, 'a valid row was turned into an error: %s' % (got,)
        if got.term != exp[1]:
            return False, 'sample differs from the documented steps composed by hand', \
                'got %r expected %r' % (got.term, exp[1])
        H.mark('row-ok')
    return True


def make_samples(int0, other_instr, have_beads):
    def make(env):
        return cond_fn('xl_samples', [('u0', 'int'), ('u1', 'int'), ('n0', 'int')],
                       body_samples, pre=['0 <= u0 < %d and 0 <= u1 < %d' % (len(UNITS), len(UNITS)),
                                          'n0 >= 0'],
                       consts={'int0': int0, 'int1': not int0, 'other_instr': other_instr,
                               'have_beads': have_beads})
    return make


def body_stats(B, I):
    """Statistics columns, event count, acquisition time, positive-only geometric statistics."""
    if B.kind == 'real':
        return replay_stats(B, I)
    xl = B.FC.excel_ui
    nonpos = [I['np0'], I['np1']]
    files = {'s1.fcs': dict(missing=False, n=5000, data_type='I')}
    world = World(B, files)
    world.anybits = lambda term: nonpos[0] if term.args[0].args[1] == 'FL1' else nonpos[1]
    u = [UNITS[ch.pick(I['u'][k], 0, len(UNITS))] for k in range(2)]
    rows = [dict(ID='S1', **{'Instrument ID': 'I1', 'File Path': 's1.fcs', 'Gate Fraction': 0.3,
                             'Beads ID': None, 'FL1 Units': u[0], 'FL2 Units': u[1],
                             'GFP Units': None}),
            dict(ID='S2', **{'Instrument ID': 'I1', 'File Path': 'nofile.fcs',
                             'Gate Fraction': 0.3, 'Beads ID': None, 'FL1 Units': 'RFI',
                             'FL2 Units': None, 'GFP Units': None})]
    table = mk_samples_table(rows)
    g = Sample(world, TermT('gated-S1'), GATED_N, 'I', 's1.fcs')
    samples = collections.OrderedDict([('S1', g), ('S2', xl.ExcelUIException('file not found'))])
    saved = install(B, world)
    try:
        with warnings.catch_warnings(record=True):
            warnings.simplefilter('always')
            r = catch(xl.add_samples_stats, table, samples)
    finally:
        restore(B, saved)
    if r[0] != 'ok':
        return False, 'add_samples_stats raised %s' % r[1], r[2]
    if table.cell('S1', 'Number of Events') != GATED_N or \
            table.cell('S1', 'Acquisition Time (s)') != TermT('acquisition_time', g.term):
        return False, 'event count / acquisition time are not those of the gated sample'
    note2 = table.cell('S2', 'Analysis Notes')
    if not (isinstance(note2, str) and note2.startswith('ERROR: ')) or \
            not mpd.isnull(table.cell('S2', 'Number of Events')):
        return False, 'error row not rendered as ERROR note with empty statistics'
    names = {'Mean': 'mean', 'Median': 'median', 'Mode': 'mode', 'Std': 'std', 'CV': 'cv',
             'IQR': 'iqr', 'RCV': 'rcv'}
    gnames = {'Geom. Mean': 'gmean', 'Geom. Std': 'gstd', 'Geom. CV': 'gcv'}
    note = table.cell('S1', 'Analysis Notes')
    for k, c in enumerate(('FL1', 'FL2')):
        given = u[k] is not None
        for col, fn in names.items():
            v = table.cell('S1', c + ' ' + col)
            if given:
                if v != TermT(fn, g.term, c):
                    return False, 'statistics column is not the library statistic of the gated sample'
            elif not mpd.isnull(v):
                return False, 'statistics reported for a channel without units'
            if not mpd.isnull(table.cell('S2', c + ' ' + col)):
                return False, 'statistics reported for an error row'
        base = g.term
        if given and nonpos[k]:
            base = TermT('rows', g.term, TermT('gt', TermT('col', g.term, c), 0))
        for col, fn in gnames.items():
            v = table.cell('S1', c + ' ' + col)
            if given and v != TermT(fn, base, c):
                return False, 'geometric statistics not computed over the positive events only'
        mentions = ('channel %s calculated on positive events' % c) in note
        if mentions != bool(given and nonpos[k]):
            return False, 'note about positive-only geometric statistics missing or spurious'
    return True


def make_stats(env):
    return cond_fn('xl_stats', [('u', 'Tuple[int, int]'), ('np0', 'bool'), ('np1', 'bool')],
                   body_stats, pre=['all(0 <= v < %d for v in u)' % len(UNITS)])


def body_hist(B, I):
    if B.kind == 'real':
        return replay_hist(B, I)
    xl = B.FC.excel_ui
    world = World(B, {'s1.fcs': dict(missing=False, n=5000, data_type='I'),
                      's3.fcs': dict(missing=False, n=5000, data_type='F')})
    u = [UNITS[ch.pick(I['u'][k], 0, len(UNITS))] for k in range(2)]
    rows = [dict(ID='S1', **{'Instrument ID': 'I1', 'File Path': 's1.fcs', 'Gate Fraction': 0.3,
                             'Beads ID': None, 'FL1 Units': u[0], 'FL2 Units': u[1],
                             'GFP Units': None}),
            dict(ID='S2', **{'Instrument ID': 'I1', 'File Path': 'x', 'Gate Fraction': 0.3,
                             'Beads ID': None, 'FL1 Units': 'RFI', 'FL2 Units': None,
                             'GFP Units': None}),
            dict(ID='S3', **{'Instrument ID': 'I1', 'File Path': 's3.fcs', 'Gate Fraction': 0.3,
                             'Beads ID': None, 'FL1 Units': u[0], 'FL2 Units': u[1],
                             'GFP Units': None})]
    table = mk_samples_table(rows)
    g = Sample(world, TermT('gated-S1'), GATED_N, 'I', 's1.fcs')
    g3 = Sample(world, TermT('gated-S3'), GATED_N, 'F', 's3.fcs')
    samples = collections.OrderedDict([('S1', g), ('S2', xl.ExcelUIException('bad')),
                                       ('S3', g3)])
    saved = install(B, world)
    try:
        r = catch(xl.generate_histograms_table, table, samples)
    finally:
        restore(B, saved)
    if r[0] != 'ok':
        return False, 'generate_histograms_table raised %s' % r[1], r[2]
    ht = r[1]
    exp_rows = []
    for sid, gg in (('S1', g), ('S3', g3)):
        for k, c in enumerate(('FL1', 'FL2')):
            if u[k] is None:
                continue
            scale = 'linear' if u[k] == 'Channel' else 'logicle'
            nb = 8
            ext = TermT('hist_bins', gg.term, c, 2 * nb, scale)
            edges = TermT('slice', ext, None, None, 2)
            centres = TermT('slice', ext, 1, None, 2)
            exp_rows.append(((sid, c, 'Bin Centers (%s)' % u[k]), centres))
            exp_rows.append(((sid, c, 'Counts'),
                             TermT('histogram', TermT('col', gg.term, c), edges)))
    if list(ht.index.values) != [e[0] for e in exp_rows]:
        return False, 'histogram rows are not (sample, channel, centres/counts) of reported channels'
    for rid, term in exp_rows:
        for j in range(8):
            if ht.cell(rid, 'Bin %d' % (j + 1)) != TermT('item', term, j):
                return False, 'histogram row is not the histogram of the gated events over the ' \
                              'library\'s bin edges'
    return True


def make_hist(env):
    return cond_fn('xl_hist', [('u', 'Tuple[int, int]')], body_hist,
                   pre=['all(0 <= v < %d for v in u)' % len(UNITS)])


MEF_STRS = [None, '0, 792, 2079', '0,792,None, 2079', '12, x, 30', '5,6']


def body_beads(B, I):
    if B.kind == 'real':
        return True, 'term-level condition (no real replay)'
    xl = B.FC.excel_ui
    dt = 'I' if I['int0'] else 'F'
    world = World(B, {'b1.fcs': dict(missing=False, n=I['n0'], data_type=dt)})
    m1 = MEF_STRS[ch.pick(I['m1'], 0, len(MEF_STRS))]
    m2 = MEF_STRS[ch.pick(I['m2'], 0, len(MEF_STRS))]
    gf = 0.4
    bt = mpd.DataFrame({'Instrument ID': ['I1'], 'File Path': ['b1.fcs'], 'Gate Fraction': [gf],
                        'Clustering Channels': ['FL1, FL2'], 'FL1 MEF Values': [m1],
                        'FL2 MEF Values': [m2]}, index=mpd.Index(['B1'], 'ID'))
    saved = install(B, world)
    try:
        r = catch(xl.process_beads_table, bt, instruments_table(), base_dir='.', verbose=False,
                  plot=False, full_output=I['full'])
    finally:
        restore(B, saved)
    if r[0] != 'ok':
        return False, 'process_beads_table raised %s' % r[1], r[2]
    out = r[1]
    beads, fxns = out[0], out[1]
    Exc = xl.ExcelUIException

    def parse(sv):
        return tuple(int(e) if e.strip().isdigit() else 'nan' for e in sv.split(','))
    vals, chans = [], []
    for c, sv in (('FL1', m1), ('FL2', m2)):
        if sv is not None:
            vals.append(parse(sv))
            chans.append(c)
    bad = world.files['b1.fcs']['n'] < 400 or (len(vals) == 2 and len(vals[0]) != len(vals[1]))
    if bad:
        H.mark('row-error')
        return isinstance(beads['B1'], Exc) and fxns['B1'] is None, \
            'documented bead-row fault not recorded as that row\'s error'
    if isinstance(beads['B1'], Exc):
        return False, 'valid bead row became an error: %s' % beads['B1']
    t = TermT('load', 'b1.fcs')
    t = TermT('to_rfi', t, ('FSC', 'SSC', 'FL1', 'FL2'))
    t = TermT('start_end', t, 250, 100)
    if dt == 'I':
        t = TermT('high_low', t, ('FSC', 'SSC'), None, None)
    t = TermT('density2d', t, ('FSC', 'SSC'), gf, 'logicle', 'logicle', 5.0, 1024)
    if beads['B1'].term != t:
        return False, 'gated beads differ from the documented steps', repr(beads['B1'].term)
    if not chans:
        return fxns['B1'] is None, 'calibration produced without MEF values'
    H.mark('calibrated')
    if len(world.mef_calls) != 1:
        return False, 'calibration not computed exactly once'
    call = world.mef_calls[0]
    if call[0] != t or call[1] != tuple(vals) or call[2] != chans or \
            call[3].get('clustering_channels') != ['FL1', 'FL2']:
        return False, 'calibration not fed the gated beads, the listed MEF values and channels'
    return True


def make_beads(env):
    return cond_fn('xl_beads', [('m1', 'int'), ('m2', 'int'), ('int0', 'bool'), ('n0', 'int'),
                                ('full', 'bool')], body_beads,
                   pre=['0 <= m1 < %d and 0 <= m2 < %d' % (len(MEF_STRS), len(MEF_STRS)), 'n0 >= 0'])


def conditions(tier):
    mods = ('plot', 'io', 'transform', 'stats', 'gate', 'mef', 'excel_ui')
    return [
    ] + [
        Cond('samples_%d%d%d' % (a, b_, c), make=make_samples(bool(a), bool(b_), bool(c)),
             replay=std_replay(body_samples), timeout=900, modules=mods, pandas=True,
             doc='two sample rows, units per channel from 13 spellings, integer/float data=%d, '
                 'other instrument=%d, calibration present=%d: result == hand composition of the '
                 'documented steps' % (a, b_, c))
        for a in (0, 1) for b_ in (0, 1) for c in (0, 1)
    ] + [
        Cond('stats_columns', make=make_stats, replay=std_replay(body_stats), timeout=600,
             modules=mods, pandas=True,
             doc='statistics columns == library statistics of the gated sample; geometric ones '
                 'over positive events with a note; count and acquisition time; error row'),
        Cond('histograms', make=make_hist, replay=std_replay(body_hist), timeout=600, modules=mods,
             pandas=True, doc='histogram rows = histogram(gated[:,ch], hist_bins(ch, 2n, '
                              'scale)[::2]) with centres [1::2]'),
        Cond('beads', make=make_beads, replay=std_replay(body_beads), timeout=600, modules=mods,
             pandas=True, doc='bead row: to_rfi(sc+fl), start_end, high_low(sc) if integer, '
                              'density2d(sigma=5); calibration fed the listed values/channels'),
    ]


# ------------------------------------------------------------------ real replays

def real_events(n, D, seed, maxv):
    import numpy as rnp
    rs = rnp.random.RandomState(seed)
    ev = rs.lognormal(5.0, 0.6, size=(n, D)).astype(int) % maxv
    if n:
        for j in range(D):              # events saturated in exactly one channel
            ev[j::17, j] = maxv - 1
            ev[5 + j::23, j] = 0
    return ev.tolist()


def real_world(I, tmp, names_by_file, dtypes, counts):
    """Write real FCS files into tmp; -> {file: path}"""
    import os
    from . import fcsgen
    for fn, names in names_by_file.items():
        n = counts[fn]
        ev = real_events(n, len(names), 11 + len(fn), 1024)
        dt = dtypes[fn]
        blob, _ = fcsgen.build_fcs(ev, [16] * len(names) if dt == 'I' else [32] * len(names),
                                   datatype=dt, names=names, ranges=[1024] * len(names),
                                   one_past=(n == 0))
        with open(os.path.join(tmp, fn), 'wb') as f:
            f.write(blob)


def replay_samples(B, I):
    import functools
    import shutil
    import tempfile
    import numpy as rnp
    import pandas as pd
    FC = B.FC
    xl = FC.excel_ui
    u = [UNITS[I['u0']], UNITS[I['u1']], 'MEF']
    inst2 = 'I2' if I['other_instr'] else 'I1'
    n0 = min(int(I['n0']), 3000)
    tmp = tempfile.mkdtemp()
    try:
        names = {'s1.fcs': ['FSC', 'SSC', 'FL1', 'FL2'],
                 's2.fcs': ['FSC-A', 'SSC-A', 'GFP', 'FL2'] if inst2 == 'I2' else
                 ['FSC', 'SSC', 'FL1', 'FL2']}
        real_world(I, tmp, names, {'s1.fcs': 'I' if I['int0'] else 'F',
                                   's2.fcs': 'I' if I['int1'] else 'F'},
                   {'s1.fcs': n0, 's2.fcs': 1500})
        itab = pd.DataFrame({c: [INSTR[i][c] for i in INSTR] for c in INSTR['I1']},
                            index=pd.Index(list(INSTR), name='ID'))
        rows = [dict(ID='S1', **{'Instrument ID': 'I1', 'File Path': 's1.fcs',
                                 'Gate Fraction': 0.3, 'Beads ID': 'B1', 'FL1 Units': u[0],
                                 'FL2 Units': u[1], 'GFP Units': None}),
                dict(ID='S2', **{'Instrument ID': inst2, 'File Path': 's2.fcs',
                                 'Gate Fraction': 0.85, 'Beads ID': 'B1', 'FL1 Units': None,
                                 'FL2 Units': u[2],
                                 'GFP Units': u[0] if inst2 == 'I2' else None})]
        cols = ['Instrument ID', 'File Path', 'Gate Fraction', 'Beads ID', 'FL1 Units',
                'FL2 Units', 'GFP Units']
        stab = pd.DataFrame({c: [r.get(c) for r in rows] for c in cols},
                            index=pd.Index([r['ID'] for r in rows], name='ID'))
        sc_fun = lambda x: 3.0 * x + 1.0
        fxn = functools.partial(FC.transform.to_mef, sc_list=[sc_fun], sc_channels=['FL1']) \
            if I['have_beads'] else None
        fxns = {'B1': fxn}
        with warnings.catch_warnings():
            warnings.simplefilter('ignore')
            r = catch(xl.process_samples_table, stab, itab, mef_transform_fxns=fxns,
                      beads_table=None, base_dir=tmp, verbose=False, plot=False)
            if r[0] != 'ok':
                return False, 'process_samples_table raised %s' % r[1], r[2]
            res = r[1]
            if list(res.keys()) != ['S1', 'S2']:
                return False, 'results are not keyed by the row identifiers in table order'
            import os
            for row in rows:
                instr = row['Instrument ID']
                sc = [INSTR[instr]['Forward Scatter Channel'], INSTR[instr]['Side Scatter Channel']]
                fl = [s.strip() for s in INSTR[instr]['Fluorescence Channels'].split(',')]
                got = res[row['ID']]
                exp = None
                try:
                    s = FC.io.FCSData(os.path.join(tmp, row['File Path']))
                    if s.shape[0] < 400:
                        raise ValueError('few events')
                    s = FC.transform.to_rfi(s, sc)
                    report = []
                    for c in fl:
                        uu = row.get(c + ' Units')
                        if uu is None:
                            continue
                        k = uu.strip().lower()
                        if k == 'channel':
                            pass
                        elif k in ('rfi', 'a.u.', 'au'):
                            s = FC.transform.to_rfi(s, c)
                        elif k == 'mef':
                            if fxn is None:
                                raise ValueError('no calibration')
                            s = FC.transform.to_rfi(s, c)
                            s = fxn(s, c)
                        else:
                            raise ValueError('units')
                        report.append(c)
                    g = FC.gate.start_end(s, num_start=250, num_end=100)
                    if g.data_type == 'I':
                        g = FC.gate.high_low(g, sc + report)
                    g = FC.gate.density2d(g, channels=sc, gate_fraction=row['Gate Fraction'],
                                          xscale='logicle', yscale='logicle')
                    exp = g
                except Exception:
                    exp = None
                if exp is None:
                    if not isinstance(got, xl.ExcelUIException):
                        return False, 'a row the documented steps cannot process did not ' \
                                      'become a row error'
                    continue
                if isinstance(got, xl.ExcelUIException):
                    return False, 'a valid row was turned into an error: %s' % (got,)
                if got.shape != exp.shape or not rnp.array_equal(rnp.asarray(got), rnp.asarray(exp)) \
                        or got.channels != exp.channels or got.range() != exp.range():
                    return False, 'sample differs from the documented steps composed by hand'
        return True
    finally:
        shutil.rmtree(tmp, ignore_errors=True)


def replay_hist(B, I):
    """Real library: two float samples with different logicle parameters, same units."""
    import os
    import shutil
    import tempfile
    import numpy as rnp
    import pandas as pd
    from . import fcsgen
    FC = B.FC
    xl = FC.excel_ui
    u = [UNITS[I['u'][k]] for k in range(2)]
    tmp = tempfile.mkdtemp()
    try:
        samples = collections.OrderedDict()
        for sid, shift in (('S1', -5.0), ('S3', -400.0)):
            rs = rnp.random.RandomState(3 if sid == 'S1' else 4)
            ev = rs.lognormal(5.0, 0.8, size=(600, 4)) + shift
            blob, _ = fcsgen.build_fcs(ev.tolist(), [32] * 4, datatype='F',
                                       names=['FSC', 'SSC', 'FL1', 'FL2'], ranges=[1024] * 4)
            path = os.path.join(tmp, sid + '.fcs')
            open(path, 'wb').write(blob)
            samples[sid] = FC.io.FCSData(path)
        samples['S2'] = xl.ExcelUIException('bad')
        ids = ['S1', 'S2', 'S3']
        stab = pd.DataFrame({'FL1 Units': [u[0], 'RFI', u[0]], 'FL2 Units': [u[1], None, u[1]]},
                            index=pd.Index(ids, name='ID'))
        with warnings.catch_warnings():
            warnings.simplefilter('ignore')
            r = catch(xl.generate_histograms_table, stab, samples)
        if r[0] != 'ok':
            return False, 'generate_histograms_table raised %s' % r[1], r[2]
        ht = r[1]
        for sid in ('S1', 'S3'):
            s_ = samples[sid]
            for k, c in enumerate(('FL1', 'FL2')):
                if u[k] is None:
                    continue
                scale = 'linear' if u[k] == 'Channel' else 'logicle'
                nb = min(s_.resolution(c), 1024)
                ext = s_.hist_bins(c, 2 * nb, scale)
                edges, centres = ext[::2], ext[1::2]
                counts, _ = rnp.histogram(s_[:, c], bins=edges)
                try:
                    row_c = ht.loc[(sid, c, 'Bin Centers (%s)' % u[k])].values[:nb].astype(float)
                    row_n = ht.loc[(sid, c, 'Counts')].values[:nb].astype(float)
                except KeyError:
                    return False, 'histogram rows are not (sample, channel, centres/counts) of ' \
                                  'reported channels'
                if not rnp.allclose(row_c, centres, rtol=0, atol=0) or \
                        not rnp.array_equal(row_n, counts.astype(float)):
                    return False, 'histogram row is not the histogram of the gated events over ' \
                                  'the library\'s bin edges'
        return True
    finally:
        shutil.rmtree(tmp, ignore_errors=True)


def replay_stats(B, I):
    """Real library and real pandas: one float sample whose FL1 / FL2 columns contain
    non-positive events as the counterexample says, one error row."""
    import os
    import shutil
    import tempfile
    import numpy as rnp
    import pandas as pd
    from . import fcsgen
    FC = B.FC
    xl = FC.excel_ui
    u = [UNITS[I['u'][k]] for k in range(2)]
    nonpos = [I['np0'], I['np1']]
    tmp = tempfile.mkdtemp()
    try:
        rs = rnp.random.RandomState(7)
        ev = rs.lognormal(4.0, 0.7, size=(500, 4)).round(0) + 1.0   # rounded: ties for the mode
        if nonpos[0]:
            ev[3::11, 2] = -2.0
            ev[4::13, 2] = 0.0
        if nonpos[1]:
            ev[1::7, 3] = -5.0
        blob, _ = fcsgen.build_fcs(ev.tolist(), [32] * 4, datatype='F',
                                   names=['FSC', 'SSC', 'FL1', 'FL2'], ranges=[1024] * 4)
        path = os.path.join(tmp, 's1.fcs')
        open(path, 'wb').write(blob)
        g = FC.io.FCSData(path)
        samples = collections.OrderedDict([('S1', g), ('S2', xl.ExcelUIException('file not found'))])
        stab = pd.DataFrame({'FL1 Units': [u[0], 'RFI'], 'FL2 Units': [u[1], None]},
                            index=pd.Index(['S1', 'S2'], name='ID'))
        with warnings.catch_warnings():
            warnings.simplefilter('ignore')
            r = catch(xl.add_samples_stats, stab, samples)
            if r[0] != 'ok':
                return False, 'add_samples_stats raised %s' % r[1], r[2]
            if stab.loc['S1', 'Number of Events'] != g.shape[0]:
                return False, 'event count / acquisition time are not those of the gated sample'
            note2 = stab.loc['S2', 'Analysis Notes']
            if not (isinstance(note2, str) and note2.startswith('ERROR: ')) or \
                    not pd.isnull(stab.loc['S2', 'Number of Events']):
                return False, 'error row not rendered as ERROR note with empty statistics'
            names = {'Mean': 'mean', 'Median': 'median', 'Mode': 'mode', 'Std': 'std', 'CV': 'cv',
                     'IQR': 'iqr', 'RCV': 'rcv'}
            gnames = {'Geom. Mean': 'gmean', 'Geom. Std': 'gstd', 'Geom. CV': 'gcv'}
            note = stab.loc['S1', 'Analysis Notes']

            def same(a, b):
                a, b = float(a), float(b)
                return (a != a and b != b) or a == b
            for k, c in enumerate(('FL1', 'FL2')):
                given = u[k] is not None
                for col, fn in names.items():
                    v = stab.loc['S1', c + ' ' + col]
                    if given:
                        if not same(v, getattr(FC.stats, fn)(g, c)):
                            return False, 'statistics column is not the library statistic of ' \
                                          'the gated sample'
                    elif not pd.isnull(v):
                        return False, 'statistics reported for a channel without units'
                    if not pd.isnull(stab.loc['S2', c + ' ' + col]):
                        return False, 'statistics reported for an error row'
                base = g
                if given and nonpos[k]:
                    base = g[rnp.asarray(g[:, c]) > 0]
                for col, fn in gnames.items():
                    v = stab.loc['S1', c + ' ' + col]
                    if given and not same(v, getattr(FC.stats, fn)(base, c)):
                        return False, 'geometric statistics not computed over the positive ' \
                                      'events only'
                mentions = ('channel %s calculated on positive events' % c) in note
                if mentions != bool(given and nonpos[k]):
                    return False, 'note about positive-only geometric statistics missing or ' \
                                  'spurious'
        return True
    finally:
        shutil.rmtree(tmp, ignore_errors=True)
