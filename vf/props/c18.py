"""C18 - the logicle scale: parameter rules, biexponential, monotonicity, inverse table."""
import types

from ..driver import Cond
from ..harness import H, Reject, catch, cond_fn
from .. import ch
from ..symnp import scalars
from ..symnp.scalars import RealT, apply_uf
from .common import std_replay
from .c19 import install, biexp
from .c03 import real_float

INFO = {
    'explanation': 'Bounded symbolic execution (CrossHair + z3) of the real source of '
                   'plot._LogicleTransform, _InterpolatedInverseTransform and _LogicleScale over '
                   'solver reals with 10**x / log10 as uninterpreted strictly increasing, mutually '
                   'inverse functions.  Decided: the parameter rules for 1-2 data sets with and '
                   'without a known range and with overrides; refusal of invalid parameters; the '
                   'transform is the published biexponential, is 0 at s=W and strictly increasing '
                   'for every p>0; the tabulated inverse (table bounded to 4 points) returns the '
                   'table nodes exactly, is non-decreasing and masks exactly the values outside '
                   '[x(0), x(M)]; the axis scale clips to that interval.',
    'functions': ['FlowCal.plot._LogicleTransform.__init__/transform_non_affine/inverted',
                  'FlowCal.plot._InterpolatedInverseTransform',
                  'FlowCal.plot._LogicleScale.limit_range_for_scale'],
    'bounds': {'quick': {'data sets': '1-2 with 2 events each', 'inverse table': '4 points'},
               'thorough': {}},
    'outside': ['existence/convergence of the root p (SciPy MINPACK): stubbed to any p>0',
                'the 1e-4*M accuracy of the 1000-point interpolated inverse (an approximation '
                'bound on a transcendental function)'],
    'stubs': ['scipy.optimize.root: p = P(W) > 0 (uninterpreted), or success=False',
              'matplotlib base classes'],
    'assumptions': ['10**x strictly increasing, positive, 10**0=1; log10 strictly increasing, '
                    'log10(1)=0, mutually inverse (instantiated on occurring terms)'],
}


def setup_env(env):
    install(env)
    env.shadow('plot', float=real_float)


def body_params(B, I):
    np = B.np
    nsets = ch.pick(I['nsets'], 1, 3)
    sets, ranges, evs = [], [], []
    for k in range(nsets):
        x0, x1 = H.real('x%d0' % k), H.real('x%d1' % k)
        hi = H.real('hi%d' % k)
        with_range = I['wr'][k]
        if with_range:
            if B.kind == 'model':
                if not (hi > 0):
                    raise Reject()
            elif not hi > 0:
                raise Reject()
            d = B.sample([[x0, 1.0], [x1, 2.0]], 'float64', channels=['A', 'B'],
                         range=[[0.0, hi], [0.0, 10.0]])
        else:
            d = B.arr([[x0, 1.0], [x1, 2.0]], 'float64')
        sets.append(d)
        ranges.append(hi if with_range else None)
        evs.append((x0, x1))
    kw = {}
    if I['ovT']:
        kw['T'] = H.real('oT')
    if I['ovM']:
        kw['M'] = H.real('oM')
    if I['ovW']:
        kw['W'] = H.real('oW')
    data = sets if (nsets > 1 or I['aslist']) else sets[0]
    r = catch(B.FC.plot._LogicleTransform, data=data, channel=0, **kw)
    # documented rules
    if 'T' in kw:
        T = kw['T']
    else:
        T = 0
        for k in range(nsets):
            if ranges[k] is not None:
                Ti = ranges[k]
            else:
                Ti = evs[k][0] if bool(evs[k][0] >= evs[k][1]) else evs[k][1]
            if bool(Ti > T):
                T = Ti
    bad_T = bool(T <= 0)
    if not bad_T:
        if 'M' in kw:
            M = kw['M']
        else:
            m2 = (4.5 / np.log10(262144)) * np.log10(T)
            M = 4.5 if bool(m2 <= 4.5) else m2
    if bad_T:
        H.mark('T<=0')
        if B.kind == 'model' and 'M' not in kw:
            raise Reject()       # log10 of a non-positive T: refusal order is unspecified
        return (r[0] == 'exc'), 'non-positive T not refused'
    if bool(M <= 0):
        H.mark('M<=0')
        return (r[0] == 'exc' and r[1] == 'ValueError'), 'non-positive M not refused'
    if 'W' in kw:
        W = kw['W']
    else:
        rmin = None
        for k in range(nsets):
            for v in evs[k]:
                if bool(v < 0) and (rmin is None or bool(v < rmin)):
                    rmin = v
        W = 0
        if rmin is not None:
            Wi = (M - np.log10(T / abs(rmin))) / 2
            if bool(Wi > 0):
                W = Wi
            H.mark('negative-events')
    if bool(W < 0):
        H.mark('W<0')
        return (r[0] == 'exc' and r[1] == 'ValueError'), 'negative W not refused'
    if r[0] != 'ok':
        return False, 'valid parameters refused: %s' % r[1], r[2]
    t = r[1]
    if not (B.close(t.T, T) and B.close(t.M, M) and B.close(t.W, W)):
        return False, 'logicle parameters differ from the documented rules'
    return True


def make_params(nsets, wr, ovW=None, ovT=None, ovM=None):
    def make(env):
        setup_env(env)
        params = [('ovT', 'bool'), ('ovM', 'bool'), ('ovW', 'bool'), ('aslist', 'bool')]
        consts = {'nsets': nsets, 'wr': wr}
        # same claim split into jobs by which parameters are given / derived
        for nm, v in (('ovW', ovW), ('ovT', ovT), ('ovM', ovM)):
            if v is not None:
                params.remove((nm, 'bool'))
                consts[nm] = v
        return cond_fn('logicle_params', params, body_params, consts=consts)
    return make


def mk_transform(B):
    T, M, W = H.real('T'), H.real('M'), H.real('W')
    if B.kind == 'model':
        if not (T > 0) or not (M > 0) or not (W >= 0):
            raise Reject()
    elif not (T > 0 and M > 0 and W >= 0):
        raise Reject()
    t = B.FC.plot._LogicleTransform(T=T, M=M, W=W)
    return t, T, M, W


def body_formula(B, I):
    t, T, M, W = mk_transform(B)
    p = t._p
    if B.kind == 'model' and not (p > 0):
        return False, 'root p not positive'
    s1, s2 = H.real('s1'), H.real('s2')
    x1 = t.transform_non_affine(s1)
    if not B.close(x1, biexp(B, T, M, W, p, s1)):
        return False, 'transform is not the published biexponential'
    xw = t.transform_non_affine(W)
    if B.kind == 'model':
        if not (xw == 0):
            return False, 'display value W is not mapped to data value 0'
        if bool(s1 < s2):
            x2 = t.transform_non_affine(s2)
            if not (x1 < x2):
                return False, 'transform not strictly increasing'
    else:
        if abs(float(xw)) > 1e-9 * float(T):
            return False, 'display value W is not mapped to data value 0'
        if s1 < s2 - 1e-6 * max(1.0, abs(s2)):
            x2 = t.transform_non_affine(s2)
            if not (x1 < x2):
                return False, 'transform not strictly increasing'
    # vectorised evaluation agrees with the scalar one
    arr = t.transform_non_affine(B.np.array([s1, s2]))
    if not B.close(B.tolist(arr)[0], x1):
        return False, 'array evaluation differs from scalar evaluation'
    return True


def make_formula(env):
    setup_env(env)
    return cond_fn('logicle_formula', [], body_formula)


class MonoStub(object):
    """Any strictly increasing transform F (uninterpreted; monotonicity instantiated on the
    occurring arguments)."""

    def __init__(self, B):
        self.B = B

    def transform_non_affine(self, s):
        B = self.B
        np = B.np
        if B.kind == 'real':
            return np.sinh(np.asarray(s, dtype=float) - 1.0) * 3.0 + 0.5 * np.asarray(s, dtype=float)

        def one(v):
            with ch.NoTracing():
                return RealT(apply_uf('Fmono', scalars.lift(getattr(v, 'v', v))))
        if isinstance(s, np.ndarray):
            return np.array([one(v) for v in s._elems()]).reshape(s.shape)
        return one(s)


def body_inverse(B, I):
    np = B.np
    M = H.real('M')
    if B.kind == 'model':
        if not (M > 0):
            raise Reject()
    elif not M > 0:
        raise Reject()
    t = MonoStub(B)
    Inv = B.FC.plot._InterpolatedInverseTransform
    res = 4
    inv = Inv(transform=t, smin=0, smax=M, resolution=res)
    # table nodes are returned exactly
    k = ch.pick(I['k'], 0, res)
    sk = M * k / (res - 1)
    xk = t.transform_non_affine(sk)
    back = inv.transform_non_affine(np.array([xk]), mask_out_of_range=False)
    if not B.close(B.tolist(back)[0], sk, 1e-9):
        return False, 'inverse does not return the display coordinate of a table node'
    # non-decreasing
    xa, xb = H.real('xa'), H.real('xb')
    ra = B.tolist(inv.transform_non_affine(np.array([xa, xb]), mask_out_of_range=False))
    if B.kind == 'model':
        if bool(xa <= xb) and not (ra[0] <= ra[1]):
            return False, 'inverse not non-decreasing'
    elif xa <= xb and not (ra[0] <= ra[1] + 1e-12):
        return False, 'inverse not non-decreasing'
    # masks exactly the values outside [x(0), x(M)]
    x0, xM = t.transform_non_affine(0.0), t.transform_non_affine(M)
    masked = inv.transform_non_affine(np.array([xa]), mask_out_of_range=True)
    m = getattr(masked, 'mask', None)
    if m is None:
        return False, 'masked inverse did not return a masked array'
    mv = bool(B.tolist(np.asarray(m) if B.kind == 'real' else m)[0])
    outside = bool(xa < x0) or bool(xa > xM)
    if mv != outside:
        return False, 'inverse masks something else than the values outside [x(0), x(M)]'
    if inv.inverted() is not t:
        return False, 'inverted() of the inverse is not the forward transform'
    return True


def make_inverse(env):
    setup_env(env)
    scalars.CONFIG.axioms = {'Fmono': ('mono',)}
    return cond_fn('logicle_inverse', [('k', 'int')], body_inverse, pre=['0 <= k <= 3'])


def body_wiring(B, I):
    """inverted() and the axis scale build the inverse table on [0, M] of their own transform."""
    plot = B.FC.plot
    calls = []

    class Rec(object):
        def __init__(self, transform, smin, smax, resolution=1000):
            calls.append((transform, smin, smax, resolution))
            self._transform = transform
    saved = plot._InterpolatedInverseTransform
    plot._InterpolatedInverseTransform = Rec
    try:
        T, M, W = H.real('T'), H.real('M'), H.real('W')
        if B.kind == 'model':
            if not (T > 0) or not (M > 0) or not (W >= 0):
                raise Reject()
        elif not (T > 0 and M > 0 and W >= 0):
            raise Reject()
        t = plot._LogicleTransform(T=T, M=M, W=W)
        t.inverted()
        sc = plot._LogicleScale(None, T=T, M=M, W=W)
        sc.get_transform()
    finally:
        plot._InterpolatedInverseTransform = saved
    if len(calls) != 2:
        return False, 'inverse table not built exactly once per request'
    if calls[0][0] is not t or calls[1][0] is not sc._transform:
        return False, 'inverse table built on another transform'
    for c in calls:
        if not (B.close(c[1], 0, 0.0) and B.close(c[2], M, 0.0)) or c[3] < 1000:
            return False, 'inverse table does not span [0, M] with >= 1000 points'
    return True


def make_wiring(env):
    setup_env(env)
    scalars.CONFIG.axioms = {'pow10': (), 'log10': (), 'logicle_p': ()}
    return cond_fn('logicle_wiring', [], body_wiring)


def body_scale(B, I):
    T, M, W = H.real('T'), H.real('M'), H.real('W')
    if B.kind == 'model':
        if not (T > 0) or not (M > 0) or not (W >= 0):
            raise Reject()
    elif not (T > 0 and M > 0 and W >= 0):
        raise Reject()
    sc = B.FC.plot._LogicleScale(None, T=T, M=M, W=W)
    t = sc._transform
    vmin, vmax = H.real('vmin'), H.real('vmax')
    r = sc.limit_range_for_scale(vmin, vmax, 0)
    x0, xM = t.transform_non_affine(0), t.transform_non_affine(M)
    e0 = vmin if bool(vmin >= x0) else x0
    e1 = vmax if bool(vmax <= xM) else xM
    if not (B.close(r[0], e0) and B.close(r[1], e1)):
        return False, 'limit_range_for_scale does not clip to [x(0), x(M)]'
    return True


def make_scale(env):
    setup_env(env)
    scalars.CONFIG.axioms = {'pow10': (), 'log10': (), 'logicle_p': ()}
    return cond_fn('logicle_scale', [], body_scale)


def body_root_fail(B, I):
    """A failed root search must not be silently accepted."""
    if B.kind == 'real':
        return True
    np = B.np
    B.env.hooks.set('root', lambda fun, x0, args=(), **kw: types.SimpleNamespace(
        success=False, x=np.array([1.0])))
    r = catch(B.FC.plot._LogicleTransform, T=1000.0, M=4.5, W=0.5)
    return r[0] == 'exc', 'failed root search accepted'


def make_root_fail(env):
    setup_env(env)
    return cond_fn('root_fail', [], body_root_fail)


def conditions(tier):
    mods = ('plot', 'io')
    cs = [Cond('params_%dset_r%d%d%s' % (n, a, b_, '' if w is None else
                                         ('_wgiven' if w else '_wderived_t%dm%d' % (t, m))),
               make=make_params(n, (bool(a), bool(b_)), w, t, m),
               replay=std_replay(body_params), timeout=900, modules=mods,
               doc='%d data set(s), known range=%s, overrides symbolic: T, M, W follow the '
                   'documented rules; T<=0, M<=0, W<0 refused' % (n, (a, b_)))
          for n, a, b_ in ((1, 0, 0), (1, 1, 0), (2, 0, 0), (2, 0, 1), (2, 1, 0), (2, 1, 1))
          for (w, t, m) in ([(None, None, None)] if n == 1 else
                            [(True, None, None), (False, False, False), (False, False, True),
                             (False, True, False), (False, True, True)])]
    cs += [
        Cond('formula', make=make_formula, replay=std_replay(body_formula), timeout=300,
             modules=mods, doc='published biexponential in (T,M,W,p); x(W)=0; s1<s2 => '
                               'x(s1)<x(s2) for every p>0'),
        Cond('inverse_table', make=make_inverse, replay=std_replay(body_inverse), timeout=900,
             modules=mods, doc='4-point table over any strictly increasing transform: nodes returned exactly, non-decreasing, masks exactly outside [x(0),x(M)]'),
        Cond('inverse_wiring', make=make_wiring, replay=std_replay(body_wiring), timeout=120,
             modules=mods, doc='inverted() / get_transform() tabulate their own transform on '
                               '[0, M] with >= 1000 points'),
        Cond('scale_limits', make=make_scale, replay=std_replay(body_scale), timeout=300,
             modules=mods, doc='_LogicleScale.limit_range_for_scale clips to [x(0), x(M)]'),
        Cond('root_failure', make=make_root_fail, replay=std_replay(body_root_fail), timeout=60,
             modules=mods, doc='root search failure raises'),
    ]
    return cs
