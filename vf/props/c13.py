"""C13 - no call changes its inputs, and results share no state with them."""
import copy
import types

from ..driver import Cond
from ..harness import H, Reject, catch, cond_fn
from .. import ch
from ..symnp import scalars
from ..symnp.scalars import RealT
from .common import std_replay, META_FIELDS
from .c03 import real_float

INFO = {
    'explanation': 'Aliasing is executed, not abstracted: the symnp array has NumPy\'s view/copy '
                   'semantics and sample metadata are real Python lists/tuples/dicts.  For every '
                   'covered public callable CrossHair explores symbolic options (scale spelling '
                   'chosen by a symbolic index, range limits as solver reals so that "lower limit '
                   '<= 0" is a path, container kind, dtype, channel form); a deep structural '
                   'fingerprint of every argument (values, dtype tag, all metadata, identity and '
                   'contents of every reachable container) is compared before and after the call; '
                   'then every mutable part of the result is mutated and the input re-'
                   'fingerprinted (and vice versa); query independence: the answer of query q2 '
                   'after q1 equals its answer on a fresh identical sample, for a symbolic pair.',
    'functions': ['FlowCal.io.FCSData accessors, hist_bins, __getitem__, __array_finalize__',
                  'FlowCal.transform.transform/to_rfi/to_mef',
                  'FlowCal.gate.start_end/high_low/ellipse/density2d', 'FlowCal.stats.* (10)',
                  'FlowCal.mef.selection_std/clustering_gmm/fit_beads_autofluorescence/'
                  'get_transform_fxn', 'FlowCal.plot.density2d/hist1d (bin resolution prologue)'],
    'bounds': {'quick': {'sample': '3-4 events x 2-3 channels', 'queries': '12 x 12 pairs'},
               'thorough': {}},
    'outside': ['plot functions other than density2d/hist1d (bodies are matplotlib calls; listed '
                'as uncovered in the evidence)', 'io.read_* functions (no caller-owned mutable '
                'arguments besides the file object)'],
    'stubs': ['scipy gaussian_filter/minimize/root, sklearn GaussianMixture, skimage '
              'find_contours, matplotlib.pyplot (recording no-ops)'],
    'assumptions': [],
}

NAMES = ('FSC', 'SSC', 'FL1')
SCALES = ['linear', 'log', 'logicle', 'bogus']


def install(env):
    np = env.np
    from .c19 import install as inst19
    inst19(env)
    env.shadow('transform', float=real_float)
    env.shadow('plot', float=real_float)
    scalars.CONFIG.axioms = {'pow10': (), 'log10': (), 'exp': (), 'log': (), 'sqrt': (),
                             'logicle_p': ()}
    def root(fun, x0, args=(), **kw):
        # all inputs are concrete in this property: solve W = 2p log10(p)/(p+1) by bisection
        import math
        W = float(args if not isinstance(args, tuple) else args[0])
        lo_, hi_ = 1.0, 1e12
        for _ in range(200):
            mid = math.sqrt(lo_ * hi_)
            if 2 * mid / (mid + 1) * math.log10(mid) < W:
                lo_ = mid
            else:
                hi_ = mid
        return types.SimpleNamespace(success=True, x=np.array([hi_]))
    env.hooks.set('root', root)
    env.hooks.set('gaussian_filter', lambda Hh, **kw: Hh + 1.0)
    env.hooks.set('find_contours', lambda image, level: [])

    def minimize(fun, x0, **kw):
        return types.SimpleNamespace(x=np.array([1.0, 2.0, 0.5]), success=True)
    env.hooks.set('minimize', minimize)
    from .c12 import install_scipy
    install_scipy(env)
    scalars.CONFIG.axioms = {'pow10': (), 'log10': (), 'exp': (), 'log': (), 'sqrt': (),
                             'logicle_p': ()}
    env.hooks.set('plt.hist', lambda **kw: ([0], [0.0, 1.0], []))


# ------------------------------------------------------------------ fingerprints

def fp(B, x, ident=False):
    np = B.np
    if isinstance(x, np.ndarray):
        vals = tuple(_b(v) for v in _flat(B, x))
        out = ['A', str(x.dtype), tuple(x.shape), vals]
        if hasattr(x, '_channels'):
            out[0] = 'S'
            out.append(tuple((f, fp(B, getattr(x, f, None), ident)) for f in META_FIELDS))
        if ident:
            out.append(id(x))
        return tuple(out)
    if isinstance(x, dict):
        return ('D',) + tuple((k, fp(B, v, ident)) for k, v in sorted(x.items(), key=lambda kv: str(kv[0])))
    if isinstance(x, list):
        return ('L', id(x) if ident else 0) + tuple(fp(B, e, ident) for e in x)
    if isinstance(x, tuple):
        return ('T',) + tuple(fp(B, e, ident) for e in x)
    return _b(x)


def _b(v):
    return getattr(v, 'v', v) if hasattr(v, '_symnp_scalar') else v


def _flat(B, a):
    out = []

    def rec(v):
        if isinstance(v, list):
            for e in v:
                rec(e)
        else:
            out.append(v)
    rec(B.tolist(a))
    return out


def same(a, b):
    """Structural equality of fingerprints (solver equality for symbolic leaves)."""
    if isinstance(a, tuple) and isinstance(b, tuple):
        if len(a) != len(b):
            return False
        for x, y in zip(a, b):
            if not same(x, y):
                return False
        return True
    if isinstance(a, tuple) != isinstance(b, tuple):
        return False
    if a is b:
        return True
    if isinstance(a, float) and isinstance(b, float) and a != a and b != b:
        return True
    try:
        return bool(a == b)
    except Exception:
        return False


def mk_sample(B, I, dtype='int64', lo0=None, n=3):
    # range limits from a table chosen by a symbolic index: a lower limit <= 0 (the case in
    # which log-scale code rewrites limits) is one of the paths
    LO = [0.0, -5.0, 1.0, 0.5]
    HI = [1023.0, 262143.0, 0.75, 99.5]
    li = ch.pick(I.get('li', 0), 0, 4)
    lo = LO[li] if lo0 is None else lo0
    hi = HI[li]
    if not lo < hi:
        raise Reject()
    rows = [[1 + 3 * i + j for j in range(3)] for i in range(n)]
    if dtype == 'float64':
        rows = [[float(v) + 0.5 for v in r] for r in rows]
    meta = dict(channels=list(NAMES), range=[[lo, hi], [0.0, 1023.0], [1.0, 500.0]],
                resolution=[1024, 1024, 256],
                amplification_type=[(0.0, 1.0), (4.0, 1.0), (0.0, 0.0)],
                amplifier_gain=[2.0, None, None], text={'$PAR': '3', 'K': 'v'},
                analysis={'A': 'b'}, data_type='I' if dtype == 'int64' else 'F')
    return B.sample(rows, dtype, **meta)


def independent(B, res, inp, fp_inp, what):
    """Mutate every mutable part of `res`; `inp` must keep its fingerprint."""
    np = B.np
    if hasattr(res, '_range') and res._range:
        if isinstance(res._range[0], list):
            res._range[0][0] = -12345.0
        res._range[-1] = [7.0, 8.0]
    if hasattr(res, '_text') and isinstance(res._text, dict):
        res._text['ZZ'] = 'mut'
    if hasattr(res, '_analysis') and isinstance(res._analysis, dict):
        res._analysis['ZZ'] = 'mut'
    if isinstance(res, np.ndarray) and res.size and what != 'view':
        flat = res.reshape(-1) if B.kind == 'real' else None
        try:
            if res.ndim == 2:
                res[0, 0] = 99
            elif res.ndim == 1:
                res[0] = 99
        except ValueError:
            pass
    return same(fp(B, inp), fp_inp)


# ------------------------------------------------------------------ hist_bins

def body_hist_bins(B, I):
    d = mk_sample(B, I)
    scale = SCALES[ch.pick(I['si'], 0, 4)]
    chan = [0, NAMES[0], [0, 1], None][ch.pick(I['cf'], 0, 4)]
    before = fp(B, d)
    hl0 = catch(B.FC.gate.high_low, d, channels=[0], full_output=True)
    r = catch(d.hist_bins, chan, 3, scale)
    H.mark(scale)
    if not same(fp(B, d), before):
        return False, 'hist_bins changed the sample (scale=%s)' % scale
    hl1 = catch(B.FC.gate.high_low, d, channels=[0], full_output=True)
    if hl0[0] == 'ok' and hl1[0] == 'ok':
        if B.tolist(hl0[1].mask) != B.tolist(hl1[1].mask):
            return False, 'default high_low gate answers differently after hist_bins'
    return True


def make_hist_bins(env):
    install(env)
    return cond_fn('hist_bins_pure', [('si', 'int'), ('cf', 'int'), ('li', 'int')], body_hist_bins,
                   pre=['0 <= si <= 3', '0 <= cf <= 3', '0 <= li <= 3'])


# ------------------------------------------------------------------ transforms

def body_transform(B, I):
    np = B.np
    which = ch.pick(I['which'], 0, 3)
    dtype = 'float64' if I['isfloat'] else 'int64'
    as_sample = I['as_sample']
    d = mk_sample(B, I, dtype)
    if not as_sample:
        d = np.array(B.tolist(d), dtype=dtype)
    before = fp(B, d)
    T = B.FC.transform
    if which == 0:
        kw = {} if as_sample else dict(amplification_type=[(0.0, 1.0), (4.0, 1.0)],
                                       amplifier_gain=[2.0, None], resolution=[1024, 1024])
        r = catch(T.to_rfi, d, [0, 1], **kw)
    elif which == 1:
        r = catch(T.to_mef, d, [1], [lambda x: x * 2.0 + 1.0], [1])
    else:
        r = catch(T.transform, d, [0, 2], lambda x: np.array(x) * 3.0)
    if r[0] != 'ok':
        return False, 'transform raised %s' % r[1], r[2]
    H.mark('which%d' % which)
    if not same(fp(B, d), before):
        return False, 'transformation changed its input'
    if r[1] is d:
        return False, 'transformation returned its input object'
    if not independent(B, r[1], d, before, 'convert'):
        return False, 'converted sample shares mutable state with its input'
    return True


def make_transform(env):
    install(env)
    return cond_fn('transform_pure', [('which', 'int'), ('isfloat', 'bool'), ('as_sample', 'bool')],
                   body_transform, pre=['0 <= which <= 2'])


# ------------------------------------------------------------------ gates

def body_gates(B, I):
    np = B.np
    which = ch.pick(I['which'], 0, 4)
    as_sample = I['as_sample']
    d = mk_sample(B, I, 'float64', n=4)
    if not as_sample:
        d = np.array(B.tolist(d), dtype='float64')
    G = B.FC.gate
    extra = None
    if which == 0:
        call = lambda: G.start_end(d, 1, 1, full_output=True)
    elif which == 1:
        call = lambda: G.high_low(d, channels=[0, 1], full_output=True)
    elif which == 2:
        call = lambda: G.ellipse(d, [0, 1], center=[5.0, 5.0], a=20.0, b=20.0, theta=0.3,
                                 full_output=True)
    else:
        bf = ch.pick(I['bf'], 0, 4)
        xs = SCALES[ch.pick(I['si'], 0, 3)]
        if bf == 0:
            extra = [2, 3]
        elif bf == 1:
            extra = [np.array([0.0, 6.0, 20.0]), 2]
        elif bf == 2:
            extra = 2
        else:
            extra = [np.array([0.0, 6.0, 20.0]), np.array([0.0, 7.0, 30.0])]
        if not as_sample and bf in (0, 1, 2):
            xs = 'linear'
        call = lambda: G.density2d(d, channels=[0, 1], bins=extra, gate_fraction=0.5, xscale=xs,
                                   yscale=xs, sigma=1.0, full_output=True)
    before = fp(B, d)
    before_extra = fp(B, extra, ident=True)
    r = catch(call)
    H.mark('gate%d' % which)
    if not same(fp(B, d), before):
        return False, 'gate changed its input data'
    if not same(fp(B, extra, ident=True), before_extra):
        return False, 'gate changed the caller\'s bins specification'
    if r[0] != 'ok':
        return True            # refusals are fine here (C05/C08 judge them)
    if not independent(B, r[1].gated_data, d, before, 'gate'):
        return False, 'gated sample shares mutable state with its input'
    return True


def make_gates(env):
    install(env)
    return cond_fn('gates_pure', [('which', 'int'), ('as_sample', 'bool'), ('bf', 'int'),
                                  ('si', 'int'), ('li', 'int')], body_gates,
                   pre=['0 <= which <= 3', '0 <= bf <= 3', '0 <= si <= 2', '0 <= li <= 1'])


# ------------------------------------------------------------------ stats

STATS = ('mean', 'gmean', 'median', 'mode', 'std', 'cv', 'gstd', 'gcv', 'iqr', 'rcv')


def body_stats(B, I):
    np = B.np
    fn = STATS[ch.pick(I['fi'], 0, 10)]
    d = mk_sample(B, I, 'float64' if I['isfloat'] else 'int64', lo0=0.0)
    if not I['as_sample']:
        d = np.array(B.tolist(d))
    chan = [None, 0, [1, 0]][ch.pick(I['cf'], 0, 3)]
    before = fp(B, d)
    r = catch(getattr(B.FC.stats, fn), d, chan)
    H.mark(fn)
    if not same(fp(B, d), before):
        return False, 'stats.%s changed its input' % fn
    return True


def make_stats(env):
    install(env)
    return cond_fn('stats_pure', [('fi', 'int'), ('isfloat', 'bool'), ('as_sample', 'bool'),
                                  ('cf', 'int')], body_stats, pre=['0 <= fi <= 9', '0 <= cf <= 2'])


# ------------------------------------------------------------------ mef

def body_mef(B, I):
    np = B.np
    which = ch.pick(I['which'], 0, 4)
    M = B.FC.mef
    d = mk_sample(B, I, 'float64', n=4)
    if which == 0:
        scale = SCALES[ch.pick(I['si'], 0, 4)]
        if I['given']:
            # populations containing a zero and a negative event (log scale clips them)
            d[0, 0] = 0.0
            d[2, 0] = -3.0
        pops = [d[0:2, 0], d[2:4, 0]]
        given = I['given']
        args = (pops,)
        kw = dict(scale=scale)
        if given:
            kw.update(low=1.0, high=900.0)
        before = fp(B, (pops, d), ident=True)
        r = catch(M.selection_std, pops, **kw)
        H.mark('selection_std ' + scale)
        if not same(fp(B, (pops, d), ident=True), before):
            return False, 'selection_std changed the caller\'s population list or samples'
        return True
    if which == 1:
        rfi, mefv = np.array([10.0, 100.0, 1000.0]), np.array([30.0, 400.0, 5000.0])
        before = fp(B, [rfi, mefv])
        r = catch(M.fit_beads_autofluorescence, rfi, mefv)
        if not same(fp(B, [rfi, mefv]), before):
            return False, 'fit_beads_autofluorescence changed its inputs'
        return True
    if which == 2:
        if B.kind == 'model':
            B.env.hooks.set('gmm_fit', lambda self, data: None)
            B.env.hooks.set('gmm_predict_proba',
                            lambda self, data: np.array([[1.0, 0.0]] * 2 + [[0.0, 1.0]] * 2))
            B.env.hooks.set('linalg_solve', lambda a, b, **kw: b)
            saved = B.FC.mef.np.random
        before = fp(B, d)
        scale = SCALES[ch.pick(I['si'], 0, 4)]
        if B.kind == 'model':
            shadow = _NPRandom(B.FC.mef.np)
            B.FC.mef.np = shadow
            try:
                r = catch(M.clustering_gmm, d[:, [0, 1]], 2, scale=scale)
            finally:
                B.FC.mef.np = shadow._base
        else:
            r = catch(M.clustering_gmm, d[:, [0, 1]], 2, scale=scale)
        H.mark('clustering ' + scale)
        if not same(fp(B, d), before):
            return False, 'clustering_gmm changed its input'
        return True
    # get_transform_fxn with caller-owned lists and dicts
    mef_values = [[0, 100], [None, 500]]
    mef_channels = ['FSC', 'FL1']
    cparams, sparams, stparams, fparams = {}, {'low': 0.5, 'high': 2000.0, 'scale': 'linear'}, {}, {}
    owned = (mef_values, mef_channels, cparams, sparams, stparams, fparams, d)
    before = fp(B, owned, ident=True)
    labels = [0, 0, 1, 1]
    r = catch(M.get_transform_fxn, d, mef_values, mef_channels,
              clustering_fxn=lambda data, n, **kw: list(labels), clustering_params=cparams,
              selection_params=sparams, statistic_params=stparams,
              fitting_fxn=lambda a, b, **kw: (lambda x: x, None, None, '', []),
              fitting_params=fparams, full_output=I['given'])
    if not same(fp(B, owned, ident=True), before):
        return False, 'get_transform_fxn changed caller-owned arguments'
    if r[0] != 'ok':
        return False, 'get_transform_fxn raised %s' % r[1], r[2]
    return True


class _NPRandom(object):
    def __init__(self, base):
        self._base = base

    def __getattr__(self, k):
        if k == 'random':
            return types.SimpleNamespace(choice=lambda a, p=None: 0 if p[0] >= p[1] else 1)
        return getattr(self.__dict__['_base'], k)


def make_mef(env):
    install(env)
    return cond_fn('mef_pure', [('which', 'int'), ('si', 'int'), ('given', 'bool'), ('li', 'int')],
                   body_mef, pre=['0 <= which <= 3', '0 <= si <= 3', '0 <= li <= 1'])


# ------------------------------------------------------------------ plot prologues

def body_plot(B, I):
    np = B.np
    if B.kind == 'real':
        import matplotlib
        matplotlib.use('Agg')
    P = B.FC.plot
    d = mk_sample(B, I, 'float64', n=4)
    which = ch.pick(I['which'], 0, 2)
    xs = SCALES[ch.pick(I['si'], 0, 3)]
    if which == 0:
        bf = ch.pick(I['bf'], 0, 3)
        bins = [[2, 3], [np.array([0.0, 6.0, 20.0]), 2], 4][bf]
        before = fp(B, (bins, d), ident=True)
        r = catch(P.density2d, d, channels=[0, 1], bins=bins, smooth=False, xscale=xs, yscale=xs)
        owned = (bins, d)
    else:
        dl = [d, d[0:2]]
        before = fp(B, (dl, d), ident=True)
        r = catch(P.hist1d, dl, channel=0, xscale=xs, bins=4)
        owned = (dl, d)
    if B.kind == 'real':
        import matplotlib.pyplot as plt
        plt.close('all')
    H.mark('plot%d %s' % (which, xs))
    if not same(fp(B, owned, ident=True), before):
        return False, 'plot function changed caller-owned arguments'
    return True


def make_plot(env):
    install(env)
    return cond_fn('plot_pure', [('which', 'int'), ('si', 'int'), ('bf', 'int'), ('li', 'int')],
                   body_plot, pre=['0 <= which <= 1', '0 <= si <= 2', '0 <= bf <= 2',
                                   '0 <= li <= 1'])


# ------------------------------------------------------------------ derived objects

def body_derive(B, I):
    np = B.np
    op = ch.pick(I['op'], 0, 9)
    d = mk_sample(B, I, 'float64' if op in (6, 7, 8) else 'int64', lo0=0.0)
    before = fp(B, d)
    if op == 0:
        s, what = d[:, [0, 2]], 'slice'
    elif op == 1:
        s, what = d[0:2], 'view'
    elif op == 2:
        s, what = d.view(), 'view'
    elif op == 3:
        s, what = d.copy(), 'copy'
    elif op == 4:
        s, what = copy.copy(d), 'copy'
    elif op == 5:
        s, what = copy.deepcopy(d), 'copy'
    elif op == 6:
        s, what = B.FC.transform.to_rfi(d, [0]), 'convert'
    elif op == 7:
        s, what = B.FC.gate.start_end(d, 1, 0), 'gate'
    else:
        s, what = d[:, 1], 'slice'
    H.mark('op%d' % op)
    if not same(fp(B, d), before):
        return False, 'deriving a sample changed the original'
    fps = fp(B, s)
    # mutate the derived object's metadata: invisible to the original
    if not independent(B, s, d, before, 'view' if what in ('view', 'slice') else what):
        return False, 'derived sample (%s) shares metadata with the original' % what
    # and the other way round
    fps2 = fp(B, s)
    d._range[0][1] = 4242.0
    d._text['YY'] = 'mut'
    d._analysis['YY'] = 'mut'
    after = fp(B, s)
    if not same(after, fps2):
        return False, 'original sample shares metadata with a derived one (%s)' % what
    return True


def make_derive(env):
    install(env)
    return cond_fn('derive_sharing', [('op', 'int')], body_derive, pre=['0 <= op <= 8'])


# ------------------------------------------------------------------ query pairs

def queries(B, d):
    S, G = B.FC.stats, B.FC.gate
    return [
        lambda: d.channels, lambda: d.range(), lambda: d.range(0), lambda: d.resolution(),
        lambda: d.amplification_type(), lambda: B.tolist(d.hist_bins(0, 3, 'linear')),
        lambda: B.tolist(d.hist_bins(0, 3, 'log')), lambda: B.tolist(d.hist_bins(0, 3, 'logicle')),
        lambda: _b(S.mean(d, 0)), lambda: B.tolist(G.high_low(d, full_output=True).mask),
        lambda: d.acquisition_time, lambda: str(d),
        lambda: B.tolist(d.hist_bins([0, 1], 2, ['log', 'linear'])[0]),
    ]


NQ = 13


def body_queries(B, I):
    q1, q2 = ch.pick(I['q1'], 0, NQ), ch.pick(I['q2'], 0, NQ)
    d1 = mk_sample(B, I, 'int64')
    d2 = B.sample(B.tolist(d1), 'int64', channels=list(NAMES),
                  range=[list(r) for r in d1._range], resolution=list(d1._resolution),
                  amplification_type=list(d1._amplification_type),
                  amplifier_gain=list(d1._amplifier_gain), text=dict(d1._text),
                  analysis=dict(d1._analysis))
    a1 = catch(queries(B, d1)[q1])
    a2 = catch(queries(B, d1)[q2])
    ref = catch(queries(B, d2)[q2])
    H.mark('q%d-q%d' % (q1, q2))
    if a2[0] != ref[0]:
        return False, 'query outcome depends on an earlier query'
    if a2[0] == 'ok' and not same(fp(B, a2[1]), fp(B, ref[1])):
        return False, 'query answer depends on an earlier query'
    return True


def make_queries(q1):
    def make(env):
        install(env)
        return cond_fn('query_pairs', [('q2', 'int'), ('li', 'int')], body_queries,
                       pre=['0 <= q2 < %d' % NQ, '0 <= li <= 3'], consts={'q1': q1})
    return make


def run_inventory(env):
    """Direct: enumerate the public callables of the re-hosted modules and report which have a
    harness (new functions appear here as uncovered)."""
    covered = {'io.FCSData', 'io.FCSFile', 'io.read_fcs_header_segment',
               'io.read_fcs_text_segment', 'io.read_fcs_data_segment',
               'transform.transform', 'transform.to_rfi', 'transform.to_mef', 'gate.start_end',
               'gate.high_low', 'gate.ellipse', 'gate.density2d', 'mef.clustering_gmm',
               'mef.selection_std', 'mef.fit_beads_autofluorescence', 'mef.get_transform_fxn',
               'plot.density2d', 'plot.hist1d'} | set('stats.' + s for s in STATS)
    found = []
    for m in ('io', 'transform', 'gate', 'stats', 'mef', 'plot'):
        mod = getattr(env.FlowCal, m)
        for k, v in sorted(mod.__dict__.items()):
            if k.startswith('_') or getattr(v, '__module__', None) != 'FlowCal.' + m:
                continue
            if isinstance(v, (types.FunctionType, type)):
                found.append('%s.%s' % (m, k))
    uncovered = [f for f in found if f not in covered]
    return {'status': 'confirmed', 'direct_queries': 0, 'paths_done': 0,
            'samples': [{'public_callables': len(found), 'uncovered': uncovered}],
            'detail': 'uncovered: %s' % uncovered}


def conditions(tier):
    mods = ('plot', 'io', 'transform', 'stats', 'gate', 'mef')
    cs = [
        Cond('inventory', kind='direct', run=run_inventory, timeout=60, modules=mods,
             doc='public callables enumerated from the modules; uncovered ones listed'),
        Cond('hist_bins', make=make_hist_bins, replay=std_replay(body_hist_bins), timeout=600,
             modules=mods, doc='hist_bins (4 scale spellings, range limits symbolic, 4 channel '
                               'forms) leaves the sample and later default gating unchanged'),
        Cond('transforms', make=make_transform, replay=std_replay(body_transform), timeout=600,
             modules=mods, doc='to_rfi/to_mef/transform on int/float samples and arrays: input '
                               'bit-identical, result shares nothing mutable'),
        Cond('gates', make=make_gates, replay=std_replay(body_gates), timeout=900, modules=mods,
             doc='four gates: data and caller-owned bins specification unchanged; gated sample '
                 'independent'),
        Cond('stats', make=make_stats, replay=std_replay(body_stats), timeout=900, modules=mods,
             doc='ten statistics leave their input unchanged'),
        Cond('mef', make=make_mef, replay=std_replay(body_mef), timeout=900, modules=mods,
             doc='selection_std / fit / clustering / get_transform_fxn leave population lists, '
                 'value lists, parameter dicts and samples unchanged'),
        Cond('plot', make=make_plot, replay=std_replay(body_plot), timeout=600, modules=mods,
             doc='plot.density2d / hist1d leave bins specifications and data lists unchanged'),
        Cond('derive_sharing', make=make_derive, replay=std_replay(body_derive), timeout=600,
             modules=mods, doc='slice/view/copy/deepcopy/convert/gate: metadata never shared in '
                               'either direction'),
    ]
    for q1 in range(NQ):
        cs.append(Cond('query_pairs_q%d' % q1, make=make_queries(q1),
                       replay=std_replay(body_queries), timeout=600, modules=mods,
                       doc='answer of every query after query %d == answer on a fresh sample' % q1))
    return cs
