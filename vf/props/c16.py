"""C16 - truncated or inconsistent FCS files fail loudly instead of yielding other data."""
import os
import tempfile

from ..driver import Cond
from ..harness import H, Reject, catch, cond_fn
from .. import ch
from .common import std_replay
from . import fcsgen
from .c01 import NumStr, model_int, model_float

INFO = {
    'explanation': 'Bounded symbolic execution (CrossHair + z3) of the real source of FCSFile.'
                   '__init__, read_fcs_header_segment, read_fcs_text_segment and '
                   'read_fcs_data_segment on concrete well-formed file images (4 layouts, ~350 '
                   'bytes) served by a model file whose LENGTH is a solver variable (crash '
                   'point): every read and the memory map see only the bytes below the cut.  '
                   'Single-field corruptions replace one declared quantity ($TOT, $PAR, a $PnB, '
                   'HEADER/TEXT DATA offsets) by a solver integer after the real parser has read '
                   'it.  Postcondition: an exception, or exactly the intact file\'s keywords and '
                   'events (a declared extent that differs from the true one by the tolerated '
                   'single byte is accepted as the other end convention).',
    'functions': ['FlowCal.io.FCSFile.__init__', 'FlowCal.io.read_fcs_header_segment',
                  'FlowCal.io.read_fcs_text_segment', 'FlowCal.io.read_fcs_data_segment'],
    'bounds': {'quick': {'layouts': 'I 2x16-bit; I mixed 8/24-bit; F 2x32-bit; I 16-bit with '
                         'ANALYSIS; 3 events each', 'cut': 'every byte offset 0..length'},
               'thorough': {}},
    'outside': ['segment orders other than HEADER, TEXT, DATA, ANALYSIS', 'larger files',
                'two simultaneous corruptions'],
    'stubs': ['file object (seek/read/readinto bounded by the symbolic length)',
              'np.memmap contract bounded by the file length'],
    'assumptions': [],
}

LAYOUTS = [
    dict(widths=[16, 16], datatype='I', big=True, analysis=None),
    dict(widths=[8, 24], datatype='I', big=False, analysis=None),
    dict(widths=[32, 32], datatype='F', big=True, analysis=None),
    dict(widths=[16], datatype='I', big=False, analysis='|A1|a|'),
    dict(widths=[32, 32, 32], datatype='F', big=False, analysis=None, n=1),
    dict(widths=[16, 32, 8, 24], datatype='I', big=True, analysis=None, n=2),
]


def image(li):
    L = LAYOUTS[li]
    D = len(L['widths'])
    events = [[(40 * i + 7 * j + 5) % 250 for j in range(D)] for i in range(L.get('n', 3))]
    blob, lay = fcsgen.build_fcs(events, L['widths'], big=L['big'], datatype=L['datatype'],
                                 analysis=L['analysis'], pad=1)
    return blob, lay, events


class _B(bytes):
    pass


class CutFile(object):
    """File of `content` truncated at `cut` bytes (cut may be symbolic)."""

    def __init__(self, content, cut):
        self.content = content
        self._vf_bytes = list(content)
        self._vf_len = cut
        self.cut = cut
        self.pos = 0

    def seek(self, n, whence=0):
        self.pos = n
        return n

    def tell(self):
        return self.pos

    def _avail(self, k):
        """Concrete number of bytes a read of k bytes returns (forks on the cut)."""
        end = self.pos + k
        if self.cut >= end:
            return k
        a = self.cut - self.pos
        if a <= 0:
            return 0
        return ch.pick(a, 1, k)

    def read(self, k=-1):
        if k is None or k < 0:
            k = len(self.content) - self.pos
        pos = ch.realize(self.pos) if ch.var_of(self.pos) is not None else self.pos
        self.pos = pos
        if pos >= len(self.content):
            n = 0
        else:
            n = self._avail(min(k, len(self.content) - pos))
        r = self.content[pos:pos + n]
        self.pos = pos + n
        return r

    def readinto(self, b):
        if hasattr(b, '_positions'):
            ps = b._positions()
            data = self.read(len(ps))
            for p_, v in zip(ps, data):
                b._buf[p_] = v
            return len(data)
        data = self.read(len(b))
        b[:len(data)] = data
        return len(data)

    def close(self):
        pass

    def fileno(self):
        raise OSError('model file')


def load_model(B, blob, cut):
    f = CutFile(blob, cut)
    return catch(B.FC.io.FCSFile, f)


def load_real(B, blob):
    fd, path = tempfile.mkstemp(suffix='.fcs')
    os.write(fd, blob)
    os.close(fd)
    try:
        return catch(B.FC.io.FCSFile, path)
    finally:
        os.unlink(path)


def same_as_intact(B, f, lay, events, datatype):
    text = dict(f.text)
    exp = dict(lay['keywords'])
    if text != exp:
        return 'keywords differ from the intact file'
    data = B.tolist(f.data)
    if len(data) != len(events) or any(len(r) != len(e) for r, e in zip(data, events)):
        return 'event matrix has another shape than the intact file'
    for r, e in zip(data, events):
        for a, b in zip(r, e):
            if float(a) != float(b):
                return 'event values differ from the intact file'
    return None


def body_truncate(B, I):
    li = I['li']
    blob, lay, events = image(li)
    cut = I['cut']
    if B.kind == 'real':
        r = load_real(B, blob[:cut])
    else:
        r = load_model(B, blob, cut)
    if r[0] == 'exc':
        H.mark('raised')
        return True
    why = same_as_intact(B, r[1], lay, events, LAYOUTS[li]['datatype'])
    if why is not None:
        return False, 'truncated file loaded with other content: ' + why
    H.mark('intact')
    if LAYOUTS[li]['analysis'] is not None and dict(r[1].analysis) not in ({'A1': 'a'}, {}):
        return False, 'truncated file loaded with other ANALYSIS keywords'
    return True


def make_truncate(li, lo, hi):
    def make(env):
        return cond_fn('truncate', [('cut', 'int')], body_truncate,
                       pre=['%d <= cut <= %d' % (lo, hi)], consts={'li': li})
    return make


# ------------------------------------------------------------------ single-field corruptions

FIELDS = ['$TOT', '$PAR', '$P1B', 'hdr_data_begin', 'hdr_data_end', 'hdr_text_end',
          '$BEGINDATA', '$ENDDATA', '$P2B']


def candidates(tv):
    return [tv + k for k in range(-4, 5)] + [0, 1, 2 * tv, 3 * tv + 1, 99999999]


def body_corrupt(B, I):
    li, field = I['li'], I['field']
    blob, lay, events = image(li)
    cand = candidates(true_value(field, lay, li))
    v = cand[ch.pick(I['vi'], 0, len(cand))] if B.kind == 'model' else cand[I['vi']]
    if v < 0:
        raise Reject()
    I = dict(I, v=v)
    D = len(LAYOUTS[li]['widths'])
    if field == '$P2B' and D < 2:
        raise Reject()
    if B.kind == 'real':
        return replay_corrupt(B, I, blob, lay, events)
    io = B.FC.io
    orig_h, orig_t = io.read_fcs_header_segment, io.read_fcs_text_segment

    def r_header(buf, begin=0):
        h = orig_h(buf, begin)
        if field.startswith('hdr_'):
            h = h._replace(**{field[4:]: v})
        return h

    def r_text(buf, begin, end, delim=None, supplemental=False):
        t, d = orig_t(buf, begin, end, delim, supplemental)
        if not supplemental:
            if field in t:
                t[field] = NumStr(v)
            if field.startswith('hdr_data'):
                # HEADER offsets take priority; keep TEXT's copy consistent with the intact file
                pass
        return t, d
    io.read_fcs_header_segment, io.read_fcs_text_segment = r_header, r_text
    try:
        r = load_model(B, blob, len(blob))
    finally:
        io.read_fcs_header_segment, io.read_fcs_text_segment = orig_h, orig_t
    return judge_corrupt(B, r, field, v, lay, events, li)


def true_value(field, lay, li):
    D = len(LAYOUTS[li]['widths'])
    return {'$TOT': LAYOUTS[li].get('n', 3), '$PAR': D, '$P1B': LAYOUTS[li]['widths'][0],
            '$P2B': LAYOUTS[li]['widths'][min(1, D - 1)], 'hdr_data_begin': lay['data_begin'],
            'hdr_data_end': lay['data_end'], 'hdr_text_end': lay['text_end'],
            '$BEGINDATA': lay['data_begin'], '$ENDDATA': lay['data_end']}[field]


def judge_corrupt(B, r, field, v, lay, events, li):
    tv = true_value(field, lay, li)
    if r[0] == 'exc':
        H.mark('raised')
        if bool(v == tv):
            return False, 'intact file refused (%s)' % field, r[2]
        return True
    f = r[1]
    if bool(v == tv):
        H.mark('uncorrupted')
        why = same_as_intact_data(B, f, events)
        return (why is None), 'intact file read wrongly: %s' % why
    if field in ('$BEGINDATA', '$ENDDATA'):
        # TEXT offsets are ignored when the HEADER carries valid ones
        why = same_as_intact_data(B, f, events)
        return (why is None), 'corrupted TEXT offset changed the events although HEADER offsets ' \
                              'are valid: %s' % why
    H.mark('accepted-corrupted')
    # a corrupted file that loads must still yield the intact events, except for the
    # tolerated one-byte end convention (declared extent one byte off the true extent)
    why = same_as_intact_data(B, f, events)
    if why is None:
        return True
    rowbytes = sum(w // 8 for w in LAYOUTS[li]['widths'])
    true_extent = LAYOUTS[li].get('n', 3) * rowbytes
    data = B.tolist(f.data)
    n_ret = len(data)
    d_ret = len(data[0]) if n_ret else 0
    if field == 'hdr_data_end' and bool(v == tv + 1 or v == tv - 1) and d_ret == len(events[0]):
        H.mark('end-convention')
        return True
    if field == 'hdr_data_begin' and bool(v == tv - 1) and d_ret == len(events[0]):
        # begin one byte early makes the declared extent one byte too long, which is exactly
        # what the tolerated "end points one past" convention looks like: indistinguishable
        # from the offsets alone (DESIGN.md, oracle notes)
        H.mark('begin-one-early-ambiguous')
        return True
    if field == '$TOT' and rowbytes == 1:
        return True
    if field == 'hdr_text_end':
        return False, 'corrupted TEXT end offset loaded with other keywords or events: ' + why
    return False, 'corrupted %s loaded with other events: %s' % (field, why)


def same_as_intact_data(B, f, events):
    data = B.tolist(f.data)
    if len(data) != len(events) or any(len(r) != len(e) for r, e in zip(data, events)):
        return 'event matrix has another shape than the intact file'
    for r, e in zip(data, events):
        for a, b in zip(r, e):
            if float(getattr(a, 'v', a)) != float(b):
                return 'event values differ from the intact file'
    return None


def replay_corrupt(B, I, blob, lay, events):
    """Real library: rewrite the field in the file image itself."""
    li, field, v = I['li'], I['field'], int(I['v'])
    L = LAYOUTS[li]
    D = len(L['widths'])
    if field.startswith('hdr_'):
        idx = {'hdr_text_end': 1, 'hdr_data_begin': 2, 'hdr_data_end': 3}[field]
        s = ('%8d' % v)[-8:]
        b = bytearray(blob)
        b[10 + 8 * idx:18 + 8 * idx] = s.encode()
        blob2 = bytes(b)
    else:
        key = field
        old = lay['keywords'][key]
        new = ('%' + str(len(old)) + 'd') % v if len(str(v)) <= len(old) else None
        if new is None or len(new) != len(old):
            # numeral of another length: rebuild the file with the override
            ev = events
            blob2, _ = fcsgen.build_fcs(ev, L['widths'], big=L['big'], datatype=L['datatype'],
                                        analysis=L['analysis'], pad=1, overrides={key: str(v)})
        else:
            token = ('|%s|%s|' % (key, old)).encode()
            assert blob.count(token) == 1
            blob2 = blob.replace(token, ('|%s|%s|' % (key, new)).encode())
    r = load_real(B, blob2)
    return judge_corrupt(B, r, field, v, lay, events, li)


def make_corrupt(li, field):
    def make(env):
        env.shadow('io', int=model_int, float=model_float)
        return cond_fn('corrupt', [('vi', 'int')], body_corrupt, pre=['0 <= vi <= 13'],
                       consts={'li': li, 'field': field})
    return make


def body_empty(B, I):
    if B.kind == 'real':
        r = load_real(B, b'')
    else:
        r = load_model(B, b'', 0)
    return r[0] == 'exc', 'empty file loaded'


def make_empty(env):
    return cond_fn('empty', [], body_empty)


def conditions(tier):
    q = tier == 'quick'
    mods = ('plot', 'io')
    cs = [Cond('empty_file', make=make_empty, replay=std_replay(body_empty), timeout=60,
               modules=mods, doc='an empty file raises')]
    for li in range(4):
        blob, lay, events = image(li)
        n = len(blob)
        nchunks = 4
        step = (n + nchunks) // nchunks
        for k in range(nchunks):
            lo, hi = k * step, min(n, (k + 1) * step - 1)
            if lo > hi:
                continue
            cs.append(Cond('truncate_L%d_%03d_%03d' % (li, lo, hi), make=make_truncate(li, lo, hi),
                           replay=std_replay(body_truncate), timeout=600, modules=mods,
                           doc='layout %d (%s): file cut at a symbolic byte in [%d, %d] of %d: '
                               'raises, or returns exactly the intact keywords and events'
                               % (li, LAYOUTS[li], lo, hi, n)))
    for li in ((0, 1, 4, 5) if q else range(len(LAYOUTS))):
        for field in (FIELDS if li < 4 else ['$TOT', '$PAR', '$P1B', '$P2B']):
            if field == '$P2B' and len(LAYOUTS[li]['widths']) < 2:
                continue
            cs.append(Cond('corrupt_L%d_%s' % (li, field.replace('$', '')),
                           make=make_corrupt(li, field), replay=std_replay(body_corrupt),
                           timeout=600, modules=mods,
                           doc='layout %d: %s replaced by an arbitrary integer: raises, or the '
                               'intact events (one-byte end convention tolerated); values: true value -4..+4, 0, 1, 2x, 3x+1, 99999999' % (li, field)))
    return cs
