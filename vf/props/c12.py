"""C12 - summary statistics equal their definitions for any container and channel form."""
from ..driver import Cond
from ..harness import H, Reject, catch, cond_fn
from .. import ch
from ..symnp.scalars import RealT
from ..symnp import funcs as sfuncs
from .common import std_replay

INFO = {
    'explanation': 'Bounded symbolic execution (CrossHair + z3) of the real source of the ten '
                   'functions of FlowCal.stats on the symnp model, with FCSData.__getitem__/'
                   '__array_wrap__/__array_finalize__ underneath.  Event values are solver '
                   'integers (ties and constant columns are paths) or positive solver reals for '
                   'the geometric statistics; the container (plain array, integer sample, float '
                   'sample) and the channel form are symbolic choices.  Oracles are the textbook '
                   'definitions over the reals (sqrt/exp/log uninterpreted).  The reductions of '
                   'the model replay the subclass hook sequence of the installed NumPy '
                   '(percentile indexes a float subclass with (-1, Ellipsis)).',
    'functions': ['FlowCal.stats.mean/gmean/median/mode/std/cv/gstd/gcv/iqr/rcv',
                  'FlowCal.io.FCSData.__getitem__', 'FlowCal.io.FCSData.__array_wrap__',
                  'FlowCal.io.FCSData.__array_finalize__'],
    'bounds': {'quick': {'shape': '3 events x 2 channels', 'channel forms': 7,
                         'order4': '3 x 4 concrete sample, all 48 arrangements of 3 or 4 channels '
                                   'x 3 spellings (positions, names, mixed)'},
               'thorough': {'shape': '4 x 2'}},
    'outside': ['IEEE rounding of the reductions', 'more than 4 events'],
    'stubs': ['scipy.stats.gmean = exp(mean(log x)) on a base-class copy',
              'scipy.stats.mode: smallest most frequent value per column, result shape of the '
              'installed SciPy (reduced axis dropped)'],
    'assumptions': ['sqrt/exp/log are functions (congruence), sqrt(x)^2 = x for x >= 0'],
}

NAMES = ('FSC', 'FL1')


def install_scipy(env):
    np = env.np

    def gmean(a, axis=0):
        A = np.array(a)                     # base-class copy, as SciPy does
        return np.exp(np.mean(np.log(A), axis=axis))

    def mode(a, axis=0):
        A = np.array(a)
        import collections
        MR = collections.namedtuple('ModeResult', ('mode', 'count'))
        if A.ndim == 1:
            cols = [A._elems()]
        else:
            cols = [A[:, j]._elems() for j in range(A.shape[1])]
        modes, counts = [], []
        for col in cols:
            best, bc = None, 0
            for v in col:
                c = 0
                for w in col:
                    if w == v:
                        c += 1
                if c > bc or (c == bc and v < best):
                    best, bc = v, c
            modes.append(best)
            counts.append(bc)
        if A.ndim == 1:
            return MR(np.array(modes)[0], np.array(counts)[0])
        return MR(np.array(modes), np.array(counts))
    env.hooks.set('gmean', gmean)
    env.hooks.set('mode', mode)
    from ..symnp import scalars
    scalars.CONFIG.axioms = {'sqrt': (), 'exp': (), 'log': ()}


def chan_form(form):
    """-> (channels argument, selected positions, scalar?)"""
    return [(None, [0, 1], False), (0, [0], True), (NAMES[1], [1], True), ([1, 0], [1, 0], False),
            ([NAMES[0], 1], [0, 1], False), ([NAMES[1]], [1], False), (-1, [1], True)][form]


def container(B, cont, rows, positive):
    meta = dict(channels=list(NAMES))
    if cont == 0:
        return B.arr(rows, 'float64' if positive else 'int64')
    if cont == 1 and not positive:
        return B.sample(rows, 'int64', data_type='I', **meta)
    return B.sample(rows, 'float64', data_type='F', **meta)


def sort3(B, vals):
    """Sorted copy by comparisons (forks symbolically)."""
    out = []
    for v in vals:
        j = len(out)
        while j > 0 and bool(out[j - 1] > v):
            j -= 1
        out.insert(j, v)
    return out


def pct(B, s, q):
    n = len(s)
    pos = q * (n - 1) / 100.0
    lo = int(pos)
    frac = pos - lo
    if frac == 0:
        return s[lo] * 1.0
    return s[lo] + (s[lo + 1] - s[lo]) * frac


def definition(B, fn, col):
    np = B.np
    n = len(col)
    if B.kind == 'model':
        # exact reals: arithmetic of a symbolic int with a float literal would otherwise
        # become an IEEE bit-vector term inside CrossHair
        col = [RealT.of(v) for v in col]
    else:
        col = [float(v) for v in col]
    mean = sum(col[1:], col[0]) / n if B.kind == 'real' else _div(sum_(col), n)
    if fn == 'mean':
        return mean
    if fn in ('std', 'cv'):
        var = _div(sum_([(x - mean) * (x - mean) for x in col]), n)
        sd = np.sqrt(var)
        return sd if fn == 'std' else sd / mean
    if fn == 'median':
        s = sort3(B, col)
        return s[n // 2] * 1.0 if n % 2 else (s[n // 2 - 1] + s[n // 2]) / 2.0
    if fn in ('iqr', 'rcv'):
        s = sort3(B, col)
        iq = pct(B, s, 75) - pct(B, s, 25)
        if fn == 'iqr':
            return iq
        med = s[n // 2] * 1.0 if n % 2 else (s[n // 2 - 1] + s[n // 2]) / 2.0
        return iq / med
    logs = [np.log(x) for x in col]
    lm = _div(sum_(logs), n)
    if fn == 'gmean':
        return np.exp(lm)
    lsd = np.sqrt(_div(sum_([(x - lm) * (x - lm) for x in logs]), n))
    if fn == 'gstd':
        return np.exp(lsd)
    if fn == 'gcv':
        return np.sqrt(np.exp(lsd * lsd) - 1)
    raise ValueError(fn)


def sum_(xs):
    acc = xs[0]
    for x in xs[1:]:
        acc = acc + x
    return acc


def _div(a, b):
    from ..symnp.core import _e_div
    return _e_div(a, b)


GEOM = ('gmean', 'gstd', 'gcv')


def body_stat(B, I):
    fn, N = I['fn'], I['N']
    positive = fn in GEOM
    if positive:
        rows = [[H.real('x%d%d' % (i, j)) for j in range(2)] for i in range(N)]
        if B.kind == 'model':
            for r in rows:
                for v in r:
                    if not (v > 0):
                        raise Reject()
        elif any(v <= 0 for r in rows for v in r):
            return True
    else:
        xs = I['xs']
        rows = [[xs[2 * i + j] for j in range(2)] for i in range(N)]
    cont = ch.pick(I['cont'], 0, 3)
    form = ch.pick(I['form'], 0, 7)
    chans, cols, scalar = chan_form(form)
    if cont == 0 and form in (2, 4, 5):
        raise Reject()
    data = container(B, cont, rows, positive)
    f = getattr(B.FC.stats, fn)
    r = catch(f, data, chans) if chans is not None or I['explicit_none'] else catch(f, data)
    if fn in ('cv', 'rcv') and B.kind == 'model':
        # definitions divide by the mean / median: outside the claim when that is zero
        pass
    if r[0] != 'ok':
        return False, 'stats.%s raised %s' % (fn, r[1]), r[2]
    res = r[1]
    vals = res.tolist() if hasattr(res, 'tolist') else res
    if scalar:
        if isinstance(vals, list):
            return False, 'stats.%s: single channel did not give a scalar' % fn
        vals = [vals]
    elif not isinstance(vals, list) or len(vals) != len(cols):
        return False, 'stats.%s: result does not have one value per requested channel' % fn
    H.mark('%s c%d f%d' % (fn, cont, form))
    for k, c in enumerate(cols):
        col = [rows[i][c] for i in range(N)]
        if fn in ('cv',):
            m = _div(sum_(col), N) if B.kind == 'model' else sum(col) / float(N)
            if bool(m == 0):
                continue
        if fn == 'rcv':
            s = sort3(B, col)
            med = s[N // 2] if N % 2 else (s[N // 2 - 1] + s[N // 2])
            if bool(med == 0):
                continue
        got = getattr(vals[k], 'v', vals[k])
        if fn == 'mode':
            # any most frequent value
            cnt = lambda v: sum(1 for w in col if bool(w == v))
            cg = cnt(got)
            if cg == 0 or any(cnt(v) > cg for v in col):
                return False, 'stats.mode: not a most frequent value of the channel'
            continue
        exp = definition(B, fn, col)
        if not B.close(got, exp, 1e-9):
            return False, 'stats.%s differs from its definition' % fn
    return True


def make_stat(fn, N, cont=None):
    def make(env):
        install_scipy(env)
        params = [('cont', 'int'), ('form', 'int'), ('explicit_none', 'bool')]
        pre = ['0 <= cont <= 2', '0 <= form <= 6']
        if cont is not None:
            params = params[1:]
            pre = pre[1:]
        if fn not in GEOM:
            params.append(('xs', 'Tuple[%s]' % ', '.join(['int'] * (2 * N))))
            pre.append('all(-1000 <= v <= 1000 for v in xs)')
        consts = {'fn': fn, 'N': N}
        if cont is not None:
            consts['cont'] = cont
        return cond_fn('stat_' + fn, params, body_stat, pre=pre, consts=consts)
    return make


def body_identities(B, I):
    """CV = SD/mean, RCV = IQR/median, GCV = sqrt(exp(ln(GSD)^2)-1) on the library's own outputs."""
    np = B.np
    rows = [[H.real('x%d%d' % (i, j)) for j in range(2)] for i in range(3)]
    if B.kind == 'model':
        for r in rows:
            for v in r:
                if not (v > 0):
                    raise Reject()
    elif any(v <= 0 for r in rows for v in r):
        return True
    cont = ch.pick(I['cont'], 0, 3)
    data = container(B, cont, rows, True)
    S = B.FC.stats
    try:
        cv, sd, mean = S.cv(data, 0), S.std(data, 0), S.mean(data, 0)
        rcv, iqr, med = S.rcv(data, 0), S.iqr(data, 0), S.median(data, 0)
        gcv, gstd = S.gcv(data, 0), S.gstd(data, 0)
    except Exception as e:
        return False, 'stats raised %s' % type(e).__name__, str(e)
    b = lambda v: getattr(v, 'v', v)
    if not B.close(b(cv), b(sd) / b(mean)):
        return False, 'identity CV = SD/mean violated'
    if not B.close(b(rcv), b(iqr) / b(med)):
        return False, 'identity RCV = IQR/median violated'
    lg = np.log(b(gstd))
    if not B.close(b(gcv), np.sqrt(np.exp(lg * lg) - 1), 1e-7):
        return False, 'identity GCV = sqrt(exp(ln(GSD)^2)-1) violated'
    return True


def make_identities(env):
    install_scipy(env)
    from ..symnp import scalars
    scalars.CONFIG.axioms = {'sqrt': (), 'exp': (), 'log': ()}
    scalars.CONFIG.inverses = (('log', 'exp'),)
    return cond_fn('identities', [('cont', 'int')], body_identities, pre=['0 <= cont <= 2'])


NAMES4 = ('FSC', 'SSC', 'FL1', 'FL2')
import itertools as _it
ORDERS4 = [list(p_) for p_ in _it.permutations(range(4))] + \
          [list(p_) for p_ in _it.permutations(range(4), 3)]
ROWS4 = [[1, 5, 2, 9], [3, 11, 4, 27], [8, 6, 17, 81]]


def body_order4(B, I):
    """Four-channel sample, channel list = any arrangement of 3 or 4 of the channels (positions,
    names or mixed): the result equals the single-channel results in the requested order."""
    fn = I['fn']
    sel = ORDERS4[ch.pick(I['oi'], 0, len(ORDERS4))]
    style = ch.pick(I['style'], 0, 3)
    cont = 2 if (fn in GEOM or fn in ('iqr', 'rcv', 'cv', 'std')) else 1
    rows = [[float(v) for v in r] for r in ROWS4] if cont == 2 else [list(r) for r in ROWS4]
    meta = dict(channels=list(NAMES4))
    data = B.sample(rows, 'float64' if cont == 2 else 'int64',
                    data_type='F' if cont == 2 else 'I', **meta)
    if style == 0:
        chans = list(sel)
    elif style == 1:
        chans = [NAMES4[c] for c in sel]
    else:
        chans = [NAMES4[c] if k % 2 == 0 else c for k, c in enumerate(sel)]
    f = getattr(B.FC.stats, fn)
    r = catch(f, data, chans)
    if r[0] != 'ok':
        return False, 'stats.%s raised %s' % (fn, r[1]), r[2]
    vals = r[1].tolist() if hasattr(r[1], 'tolist') else r[1]
    if not isinstance(vals, list) or len(vals) != len(sel):
        return False, 'stats.%s: result does not have one value per requested channel' % fn
    for k, c in enumerate(sel):
        one = catch(f, data, c)
        if one[0] != 'ok':
            return False, 'stats.%s raised %s for a single channel' % (fn, one[1]), one[2]
        a, b = getattr(vals[k], 'v', vals[k]), getattr(one[1], 'v', one[1])
        if not B.close(a, b, 1e-9):
            return False, 'stats.%s: list of channels != per-channel results in the requested ' \
                          'order' % fn
    H.mark('%s len%d style%d' % (fn, len(sel), style))
    return True


def make_order4(fn):
    def make(env):
        install_scipy(env)
        return cond_fn('order4_' + fn, [('oi', 'int'), ('style', 'int')],
                       body_order4, pre=['0 <= oi <= %d' % (len(ORDERS4) - 1), '0 <= style <= 2'],
                       consts={'fn': fn})
    return make


FNS = ('mean', 'gmean', 'median', 'mode', 'std', 'cv', 'gstd', 'gcv', 'iqr', 'rcv')


def conditions(tier):
    q = tier == 'quick'
    N = 3 if q else 4
    mods = ('plot', 'io', 'stats')
    cs = []
    for fn in FNS:
        heavy = fn in ('median', 'mode', 'iqr', 'rcv')
        for cont in ((0, 1, 2) if heavy else (None,)):
            cs.append(Cond('stat_%s%s' % (fn, '' if cont is None else '_c%d' % cont),
                           make=make_stat(fn, N, cont), replay=std_replay(body_stat),
                           timeout=600 if q else 2400, modules=mods,
                           doc='stats.%s == textbook definition per channel; containers {array, '
                               'integer sample, float sample}; 7 channel forms (absent, position, '
                               'name, lists, single-element list, negative position); list == '
                               'per-channel results in order' % fn))
    for fn in FNS:
        cs.append(Cond('order4_' + fn, make=make_order4(fn), replay=std_replay(body_order4),
                       timeout=300 if q else 900, modules=mods,
                       doc='3x4 sample (concrete events, distinct per-channel statistics; float sample for the '
                           'geometric statistics, std, cv, iqr, rcv, integer sample otherwise), channel '
                           'list = any arrangement of 3 or 4 of the 4 channels as positions, names '
                           'or mixed: stats.%s(list) == single-channel results in the requested '
                           'order' % fn))
    cs.append(Cond('identities', make=make_identities, replay=std_replay(body_identities),
                   timeout=300, modules=mods,
                   doc='CV = SD/mean, RCV = IQR/median, GCV = sqrt(exp(ln(GSD)^2)-1) on the '
                       'library\'s outputs'))
    return cs
