"""Concrete FCS file writer used by replays, validators and image-based conditions.
Independent of FlowCal (the encoder is written from the FCS layout rules)."""
import os
import struct
import tempfile


def encode_events(events, widths, big, datatype):
    out = bytearray()
    for row in events:
        for v, w in zip(row, widths):
            if datatype == 'I':
                out += int(v).to_bytes(w // 8, 'big' if big else 'little')
            elif datatype == 'F':
                out += struct.pack(('>' if big else '<') + 'f', float(v))
            else:
                out += struct.pack(('>' if big else '<') + 'd', float(v))
    return bytes(out)


def build_fcs(events, widths, big=True, datatype='I', ranges=None, version='FCS3.0',
              overrides=None, header_data=None, text_data=None, extra_text=None, delim='|',
              analysis=None, names=None, pad=2, one_past=False, byteord=None, drop=(),
              stext=None, analysis_in_header=True, analysis_in_text=True):
    """-> (file bytes, layout dict).  overrides replace keyword values verbatim."""
    D = len(widths)
    N = len(events)
    data = encode_events(events, widths, big, datatype)
    if ranges is None:
        ranges = [1 << min(w, 30) for w in widths] if datatype == 'I' else [262144] * D
    kw = []

    def add(k, v):
        kw.append((k, v))
    text_begin = 58
    # two passes: keyword values containing offsets use fixed-width numerals
    def assemble(db, de, ab, ae, sb=0, se=0):
        kw[:] = []
        add('$BEGINANALYSIS', '%8d' % (ab if analysis_in_text else 0))
        add('$ENDANALYSIS', '%8d' % (ae if analysis_in_text else 0))
        add('$BEGINSTEXT', '%8d' % sb)
        add('$ENDSTEXT', '%8d' % se)
        tb, te = (db, de) if text_data is None else text_data
        add('$BEGINDATA', '%8d' % tb)
        add('$ENDDATA', '%8d' % te)
        add('$BYTEORD', byteord if byteord is not None else ('4,3,2,1' if big else '1,2,3,4'))
        add('$DATATYPE', datatype)
        add('$MODE', 'L')
        add('$NEXTDATA', '0')
        add('$PAR', str(D))
        add('$TOT', str(N))
        for p in range(D):
            add('$P%dB' % (p + 1), str(widths[p]))
            add('$P%dE' % (p + 1), '0,0')
            add('$P%dN' % (p + 1), names[p] if names else 'CH%d' % (p + 1))
            add('$P%dR' % (p + 1), str(ranges[p]))
        for k, v in (extra_text or {}).items():
            add(k, v)
        if overrides:
            done = set()
            for i, (k, v) in enumerate(list(kw)):
                if k in overrides:
                    kw[i] = (k, overrides[k])
                    done.add(k)
            for k, v in overrides.items():
                if k not in done:
                    add(k, v)
        items = [(k, v) for (k, v) in kw if k not in drop]
        s = delim
        for k, v in items:
            s += k.replace(delim, delim * 2) + delim + str(v).replace(delim, delim * 2) + delim
        return s.encode('ISO-8859-1')
    text = assemble(0, 0, 0, 0)
    text_end = text_begin + len(text) - 1
    data_begin = text_end + 1 + pad
    data_end = data_begin + len(data) - 1 + (1 if one_past else 0)
    if N == 0 and not one_past:
        data_end = data_begin     # degenerate; callers use one_past for N == 0
    abytes = b''
    ab = ae = 0
    if analysis is not None:
        abytes = analysis.encode('ISO-8859-1') if isinstance(analysis, str) else analysis
        ab = data_begin + len(data) + pad
        ae = ab + len(abytes) - 1
    sbytes = b''
    sb = se = 0
    if stext is not None:
        sbytes = stext.encode('ISO-8859-1')
        sb = (ae + 1 if analysis is not None else data_begin + len(data)) + pad
        se = sb + len(sbytes) - 1
    text = assemble(data_begin, data_end, ab, ae, sb, se)
    assert text_begin + len(text) - 1 == text_end
    hb, he = (data_begin, data_end) if header_data is None else header_data
    header = '%-10s' % version + '%8d%8d%8d%8d' % (text_begin, text_end, hb, he)
    header += ('%8d%8d' % (ab, ae)) if (analysis is not None and analysis_in_header) \
        else (' ' * 16)
    blob = header.encode() + text + b'\x00' * pad + data
    if analysis is not None:
        blob += b'\x00' * pad + abytes
    else:
        blob += b'\x00' * pad
    if stext is not None:
        blob = blob[:sb] if len(blob) >= sb else blob + b'\x00' * (sb - len(blob))
        blob += sbytes + b'\x00' * pad
    lay = {'text_begin': text_begin, 'text_end': text_end, 'data_begin': data_begin,
           'data_end': data_end, 'analysis_begin': ab, 'analysis_end': ae, 'length': len(blob), 'stext_begin': sb, 'stext_end': se,
           'keywords': dict((k, v) for k, v in kw if k not in drop)}
    return blob, lay


def write_fcs(events, widths, return_layout=False, **kw):
    blob, lay = build_fcs(events, widths, **kw)
    fd, path = tempfile.mkstemp(suffix='.fcs')
    os.write(fd, blob)
    os.close(fd)
    if return_layout:
        return path, lay
    return path
