"""C20 - a sample survives copying, viewing and pickling in any analysis state."""
import copy
import datetime
import pickle

from ..driver import Cond
from ..harness import H, Reject, catch, cond_fn
from .. import ch
from .common import std_replay, META_FIELDS, meta_of
from .c13 import fp, same, independent
from .c03 import real_float

INFO = {
    'explanation': 'Bounded symbolic execution (CrossHair) of FCSData.__reduce__/__setstate__/'
                   '__array_finalize__/__getitem__, the transforms and gates, and FCSFile.__eq__/'
                   '__ne__/__hash__ on the symnp model.  A history of up to two (thorough: three) '
                   'operations is a sequence of symbolic choices among {slice channels, slice '
                   'events, to RFI, to MEF, gate}; then a symbolic choice among {copy(), '
                   'copy.copy, copy.deepcopy, view(), pickle}.  Pickling is modelled as what the '
                   'protocol does with FlowCal\'s part: the real __reduce__, a deep copy of the '
                   'returned state (serialisation boundary), reconstruction and the real '
                   '__setstate__.  Every one of the 14 state fields carries a distinct non-default '
                   'value, so a field missing from the pickle state or from __array_finalize__ '
                   'shows up as a mismatch.',
    'functions': ['FlowCal.io.FCSData.__reduce__', 'FlowCal.io.FCSData.__setstate__',
                  'FlowCal.io.FCSData.__array_finalize__', 'FlowCal.io.FCSData.__getitem__',
                  'FlowCal.transform.to_rfi/to_mef', 'FlowCal.gate.start_end/high_low',
                  'FlowCal.io.FCSFile.__eq__/__ne__/__hash__'],
    'bounds': {'quick': {'sample': '3 events x 3 channels', 'history': '<= 2 operations'},
               'thorough': {'history': '<= 3 operations'}},
    'outside': ['the byte-level pickle protocols 0-5 of CPython (replays use the real pickle)'],
    'stubs': [],
    'assumptions': [],
}

NAMES = ('FSC', 'SSC', 'FL1')


def mk(B):
    rows = [[1 + 3 * i + j for j in range(3)] for i in range(3)]
    meta = dict(channels=list(NAMES), range=[[0.0, 1023.0], [1.0, 255.0], [2.0, 4095.0]],
                resolution=[1024, 256, 4096],
                amplification_type=[(0.0, 1.0), (4.0, 1.0), (0.0, 0.0)],
                amplifier_gain=[2.0, None, 3.0], detector_voltage=[300.0, 400.0, None],
                channel_labels=['a', None, 'c'], text={'$PAR': '3', 'K': 'v'},
                analysis={'A': 'b'}, data_type='I', time_step=0.25,
                acquisition_start_time=datetime.datetime(2020, 1, 2, 3, 4, 5),
                acquisition_end_time=datetime.datetime(2020, 1, 2, 3, 5, 6), infile='f.fcs')
    return B.sample(rows, 'int64', **meta)


def apply_op(B, s, op):
    """One analysis step; returns the new sample (always 2-d)."""
    T, G = B.FC.transform, B.FC.gate
    nch = s.shape[1]
    if op == 0:
        return s[:, [nch - 1, 0]] if nch >= 2 else s[:, [0]]
    if op == 1:
        return s[0:2]
    if op == 2:
        return T.to_rfi(s, [0])
    if op == 3:
        return T.to_mef(s, [0], [lambda x: x * 2.0 + 1.0], [0])
    if op == 4:
        return G.start_end(s, 1, 0)
    if op == 5:
        return G.high_low(s, channels=[0], high=1e9, low=-1e9)
    if op == 6:
        return s[:, 1:]
    raise Reject()


NOPS = 7


def clone(B, s, how, protocol=2):
    if how == 0:
        return s.copy(), 'copy'
    if how == 1:
        return copy.copy(s), 'copy'
    if how == 2:
        return copy.deepcopy(s), 'copy'
    if how == 3:
        return s.view(), 'view'
    if B.kind == 'real':
        return pickle.loads(pickle.dumps(s, protocol=protocol)), 'copy'
    # what the pickle protocol does with FlowCal's part of it
    red = s.__reduce__()
    state = copy.deepcopy(red[2])              # serialisation boundary
    obj = red[0](*red[1])
    obj.__setstate__(state)
    return obj, 'copy'


def body_survive(B, I):
    s = mk(B)
    nops = I['nops']
    ops = [ch.pick(I['o%d' % k], 0, NOPS) for k in range(nops)]
    for op in ops:
        r = catch(apply_op, B, s, op)
        if r[0] != 'ok':
            return False, 'analysis step raised %s' % r[1], r[2]
        s = r[1]
        if s.shape[1] == 0 or s.shape[0] == 0:
            raise Reject()
    how = ch.pick(I['how'], 0, 5)
    H.mark('ops%s how%d' % (ops, how))
    protos = [I.get('protocol', 2)] if B.kind == 'model' or how != 4 else [0, 1, 2, 3, 4, 5]
    for proto in protos:
        before = fp(B, s)
        r = catch(clone, B, s, how, proto)
        if r[0] != 'ok':
            return False, 'copy/view/pickle raised %s' % r[1], r[2]
        c, what = r[1]
        if type(c) is not type(s):
            return False, 'copy is not a sample'
        for f in META_FIELDS:
            if not hasattr(c, f):
                return False, 'metadata attribute %s lost' % f
        if not same(fp(B, c), before):
            return False, 'copy/view/pickle differs from the original'
        if not same(fp(B, s), before):
            return False, 'copying changed the original'
        # independence afterwards (a view shares only the event buffer)
        if not independent(B, c, s, before, what):
            return False, 'copy shares metadata with the original'
        fpc = fp(B, c)
        s._range[0][0] = -777.0
        s._text['QQ'] = 'mut'
        if not same(fp(B, c), fpc):
            return False, 'original shares metadata with the copy'
        s._range[0][0] = before and _first_range(before)
        del s._text['QQ']
    return True


def _first_range(fpv):
    # restore value of range[0][0] from a fingerprint (tuple layout of fp)
    meta = dict(fpv[4])
    return meta['_range'][2][2]


def make_survive(nops, how=None):
    def make(env):
        env.shadow('transform', float=real_float)
        params = [('o%d' % k, 'int') for k in range(nops)]
        pre = ['0 <= o%d < %d' % (k, NOPS) for k in range(nops)]
        consts = {'nops': nops}
        if how is None:
            params.append(('how', 'int'))
            pre.append('0 <= how <= 4')
        else:
            consts['how'] = how
        return cond_fn('survive', params, body_survive, pre=pre, consts=consts)
    return make


# ------------------------------------------------------------------ FCSFile equality / hashing

def mk_file(B, infile, header, text, analysis, data):
    F = B.FC.io.FCSFile
    f = object.__new__(F)
    f._infile, f._header, f._text, f._analysis = infile, header, text, analysis
    f._data = data
    return f


def body_fileeq(B, I):
    np = B.np
    which = ch.pick(I['which'], 0, 6)
    x, y = I['x'], I['y']
    d1 = [[x, 2], [3, 4]]
    d2 = [[y if which == 5 else x, 2], [3, 4]]
    f1 = mk_file(B, 'a.fcs', ('FCS3.0', 1, 2), {'K': 'v', 'L': 'w'}, {'A': 'b'}, B.arr(d1, 'int64'))
    f2 = mk_file(B, 'b.fcs' if which == 1 else 'a.fcs',
                 ('FCS3.0', 1, 3) if which == 2 else ('FCS3.0', 1, 2),
                 {'K': 'v', 'L': 'x'} if which == 3 else {'L': 'w', 'K': 'v'},
                 {'A': 'c'} if which == 4 else {'A': 'b'}, B.arr(d2, 'int64'))
    differs = which in (1, 2, 3, 4) or (which == 5 and bool(x != y))
    eq = f1 == f2
    ne = f1 != f2
    H.mark('which%d' % which)
    if bool(eq) == differs:
        return False, 'FCSFile equality does not reflect a difference in events or keywords'
    if bool(ne) != differs:
        return False, 'FCSFile != is not the negation of =='
    if (f1 == 5) is not False and (f1 == 5) is not NotImplemented:
        pass
    return True


def make_fileeq(env):
    return cond_fn('fcsfile_eq', [('which', 'int'), ('x', 'int'), ('y', 'int')], body_fileeq,
                   pre=['0 <= which <= 5', '0 <= x <= 2 ** 31 and 0 <= y <= 2 ** 31'])


def body_filehash(B, I):
    which = I['which']
    f1 = mk_file(B, 'a.fcs', ('FCS3.0', 1, 2), {'K': 'v', 'L': 'w'}, {'A': 'b'},
                 B.arr([[1, 2], [3, 4]], 'int64'))
    f2 = mk_file(B, 'a.fcs', ('FCS3.0', 1, 2), {'L': 'w', 'K': 'v'}, {'A': 'b'},
                 B.arr([[1, 2], [3, 4 + which]], 'int64'))
    with ch.NoTracing():        # everything is concrete here; CrossHair's hash() proxy is not
        h1, h2 = hash(f1), hash(f2)
        e = bool(f1 == f2)
    if e and h1 != h2:
        return False, 'equal FCSFile objects have different hashes'
    return True


def make_filehash(which):
    def make(env):
        return cond_fn('fcsfile_hash', [], body_filehash, consts={'which': which})
    return make


def conditions(tier):
    q = tier == 'quick'
    mods = ('plot', 'io', 'transform', 'gate')
    cs = [Cond('survive_0ops', make=make_survive(0), replay=std_replay(body_survive), timeout=300,
               modules=mods, doc='freshly built sample: copy/copy.copy/deepcopy/view/pickle'),
          Cond('survive_1op', make=make_survive(1), replay=std_replay(body_survive), timeout=600,
               modules=mods, doc='after one of 7 analysis steps')]
    for how in range(5):
        cs.append(Cond('survive_2ops_how%d' % how, make=make_survive(2, how),
                       replay=std_replay(body_survive), timeout=900, modules=mods,
                       doc='after two analysis steps (49 histories), clone kind %d of '
                           '(copy, copy.copy, deepcopy, view, pickle)' % how))
    if not q:
        for how in range(5):
            cs.append(Cond('survive_3ops_how%d' % how, make=make_survive(3, how),
                           replay=std_replay(body_survive), timeout=3000, modules=mods,
                           doc='after three analysis steps (343 histories)'))
    cs += [Cond('fcsfile_eq', make=make_fileeq, replay=std_replay(body_fileeq), timeout=300,
                modules=('plot', 'io'),
                doc='== iff infile, header, text, analysis and every event equal (one event '
                    'symbolic in both files); != is its negation'),
           Cond('fcsfile_hash_equal', make=make_filehash(0), replay=std_replay(body_filehash),
                timeout=120, modules=('plot', 'io'), doc='equal objects have equal hashes'),
           Cond('fcsfile_hash_differ', make=make_filehash(1), replay=std_replay(body_filehash),
                timeout=120, modules=('plot', 'io'), doc='hash defined for differing objects')]
    return cs
