"""C04 - channel metadata stays aligned with columns under every indexing expression."""
import itertools
from typing import Tuple

from ..driver import Cond
from ..harness import H, Reject, catch, cond_fn
from .. import ch
from .common import meta_of, is_sample, std_replay, CHANNEL_FIELDS

INFO = {
    'explanation': 'Bounded symbolic execution (CrossHair + z3) of the real source of '
                   'FCSData.__getitem__/__setitem__/_name_to_index/__array_finalize__ re-hosted '
                   'on the symnp NumPy model.  One condition per production of the key grammar '
                   '(rows form x cols form); every integer, slice bound, step, mask bit, list '
                   'length, element kind and channel name in the key is a solver variable.  The '
                   'sample holds pairwise distinct values that encode their source cell and '
                   'pairwise distinct atoms in every per-channel attribute, so any permutation, '
                   'drop or duplication is visible.  The model\'s plain indexing is compared '
                   'with the installed NumPy over an exhaustive key grid on every run.',
    'functions': ['FlowCal.io.FCSData.__getitem__', 'FlowCal.io.FCSData.__setitem__',
                  'FlowCal.io.FCSData._name_to_index', 'FlowCal.io.FCSData.__array_finalize__',
                  'FlowCal.io.FCSData.channels/range/resolution/amplification_type/'
                  'amplifier_gain/detector_voltage/channel_labels'],
    'bounds': {'quick': {'sample': '3 events x 3 channels', 'ints': 'unbounded (out-of-range '
                         'collapses to one path per side)', 'lists': 'length 0..2 mixing names '
                         'and ints', 'names': 'symbolic str of length <= 2', 'chains': 2,
                         'slices': 'start/stop in -1..2 or None, step in {-1,2,None} (full -5..5 x -3..3 for rows with light column forms)'},
               'thorough': {'sample': '3 x 4', 'lists': 'length 0..3', 'chains': 3}},
    'outside': ['shapes larger than 3x4', 'keys with more than two entries', 'structured dtypes'],
    'stubs': [],
    'assumptions': ['NumPy basic/advanced indexing as modelled by symnp (validated against the '
                    'installed NumPy by condition model_indexing_vs_numpy on every run)'],
}

NAMES3 = ('a', 'b', 'c')
NAMES4 = ('a', 'b', 'c', 'd')


def mk(B, N, D):
    names = NAMES4[:D]
    rows = [[10 * i + j for j in range(D)] for i in range(N)]
    meta = dict(
        channels=list(names),
        amplification_type=[(float(j), 1.0 + j) for j in range(D)],
        detector_voltage=[100.0 + j for j in range(D)],
        amplifier_gain=[2.0 + j for j in range(D)],
        channel_labels=['l%d' % j for j in range(D)],
        range=[[0.0 + j, 1000.0 + j] for j in range(D)],
        resolution=[1024 + j for j in range(D)])
    return B.sample(rows, 'int64', **meta), B.arr(rows, 'int64'), meta, names


def src_meta(meta, c):
    return {'_channels': meta['channels'][c], '_amplification_type': meta['amplification_type'][c],
            '_detector_voltage': meta['detector_voltage'][c],
            '_amplifier_gain': meta['amplifier_gain'][c],
            '_channel_labels': meta['channel_labels'][c], '_range': meta['range'][c],
            '_resolution': meta['resolution'][c]}


# ------------------------------------------------------------------ key construction

def _opt(flag, v, lo=-5, hi=5):
    """Optional slice component, concretised inside its declared bounds so that FlowCal's own
    tuple slicing of the metadata runs on concrete integers (the enumeration of the classes is
    still the solver's)."""
    if flag:
        return None
    return ch.pick(v, lo, hi + 1)


def build_rows(rform, P):
    """rows part of the key from the symbolic pool P."""
    if rform == 'int':
        return P['k1']
    if rform == 'slice':
        return slice(_opt(P['an'], P['a']), _opt(P['bn'], P['b']), _opt(P['sn'], P['s']))
    if rform == 'list':
        return [P['k1'], P['k2']]
    if rform == 'mask':
        return [P['m0'], P['m1'], P['m2']][:P['N']]
    if rform == 'ell':
        return Ellipsis
    raise ValueError(rform)


def _elem(P, i, names, B):
    """i-th element of a channel list: a name or an int, chosen symbolically."""
    if P['isname'][i]:
        return NAME_TABLE[ch.pick(P['nmi'][i], 0, 6)]
    return P['c'][i]


def build_cols(cform, P, names, B):
    """-> (cols key, kind) where kind in 'std' (documented grammar) / 'other'."""
    if cform == 'int':
        return P['c'][0], 'std'
    if cform == 'name':
        return P['nm0'], 'std'
    if cform in ('slice', 'slice_full'):
        return slice(_opt(P['can'], P['ca']), _opt(P['cbn'], P['cb']), _opt(P['csn'], P['cs'])), 'std'
    if cform[:4] == 'list' or cform[:5] == 'tuple':
        n = int(cform[-1])
        el = [_elem(P, i, names, B) for i in range(n)]
        return (el if cform[:4] == 'list' else tuple(el)), 'std'
    if cform == 'ell':
        return Ellipsis, 'std'
    if cform == 'perm4':
        import itertools
        perm = list(itertools.permutations(range(4)))[ch.pick(P['pi'], 0, 24)]
        return [names[j] if P['isname'][0] and j % 2 else j for j in perm], 'std'
    if cform == 'boollist':
        return [P['m0'], P['m1'], P['m2'], P['m0']][:P['D']], 'other'
    if cform == 'npint':
        return B.np.int64(P['c'][0]), 'other'
    if cform == 'none':
        return None, 'other'
    raise ValueError(cform)


def translate(colkey, names):
    """The documented meaning of a channel key: names -> positions, positions checked.
    -> ('ok', key for plain indexing) | ('error',)"""
    D = len(names)

    def one(x):
        if isinstance(x, str):
            for j, nm in enumerate(names):
                if x == nm:
                    return j
            return None
        if x < -D or x >= D:
            return None
        return x
    if isinstance(colkey, slice) or colkey is Ellipsis:
        return ('ok', colkey)
    if isinstance(colkey, (list, tuple)):
        out = []
        for x in colkey:
            t = one(x)
            if t is None:
                return ('error',)
            out.append(t)
        return ('ok', out)
    t = one(colkey)
    if t is None:
        return ('error',)
    return ('ok', t)


# ------------------------------------------------------------------ oracle

def flat_vals(B, r):
    v = B.tolist(r)
    out = []

    def rec(x):
        if isinstance(x, list):
            for e in x:
                rec(e)
        else:
            out.append(x)
    rec(v)
    return out


def aligned(B, r, meta, D):
    """Each returned value comes from the column its metadata entry names."""
    fields = {}
    for f in CHANNEL_FIELDS:
        v = getattr(r, f, None)
        if v is None:
            return 'attribute %s missing' % f
        fields[f] = list(v)
    M = len(fields['_channels'])
    for f in CHANNEL_FIELDS:
        if len(fields[f]) != M:
            return 'attribute lengths differ'
    # identify the source column of every metadata entry by its channel name
    names = meta['channels']
    srcs = []
    for k in range(M):
        nm = fields['_channels'][k]
        if nm not in names:
            return 'unknown channel name in result'
        c = names.index(nm)
        srcs.append(c)
        want = src_meta(meta, c)
        for f in CHANNEL_FIELDS:
            got = fields[f][k]
            w = want[f]
            if f == '_range':
                got = list(got)
                w = list(w)
            if got != w:
                return 'attribute %s not that of the selected column' % f
    shape = tuple(r.shape)
    vals = flat_vals(B, r)
    cols = [int(v) % 10 for v in vals]
    if len(shape) == 2:
        if shape[1] != M:
            return 'metadata count != number of columns'
        for idx, c in enumerate(cols):
            if c != srcs[idx % M]:
                return 'column values do not come from the channel named by the metadata'
        return None
    if len(shape) == 1:
        L = shape[0]
        ok_pos = (M == L and all(cols[k] == srcs[k] for k in range(L)))
        ok_one = (M == 1 and all(c == srcs[0] for c in cols))
        if ok_pos or ok_one:
            return None
        return '1-d result values do not match metadata entries'
    if len(shape) == 0:
        if M == 1 and cols[0] == srcs[0]:
            return None
        return '0-d result metadata mismatch'
    return None      # >2-d results (np.newaxis forms) carry whatever they carry; see design


def check_get(B, d, plain, meta, names, key, colkey, kind, has_cols):
    """One indexing step.  -> (ok?, detail, result-or-None)"""
    D = len(names)
    r = catch(lambda: d[key])
    if has_cols:
        tr = translate(colkey, names) if kind == 'std' else ('other',)
    else:
        tr = ('ok', None)
    if tr[0] == 'error':
        H.mark('expect-error')
        if r[0] == 'exc':
            return True, '', None
        return False, 'unknown name / out-of-range position accepted', None
    if tr[0] == 'ok':
        pkey = key if not has_cols else (key[0], tr[1])
        e = catch(lambda: plain[pkey])
    else:
        e = catch(lambda: plain[key])
    if r[0] == 'exc':
        H.mark('raised')
        if e[0] == 'exc':
            return True, '', None            # plain indexing refuses too
        if kind == 'other':
            return True, '', None            # other forms may be refused
        return False, 'valid key refused: %s' % (r[1],), None
    out = r[1]
    if e[0] == 'exc':
        if kind == 'other':
            pass
        else:
            return False, 'key accepted although plain indexing raises %s' % (e[1],), None
    else:
        exp = e[1]
        es = tuple(getattr(exp, 'shape', ()))
        os_ = tuple(getattr(out, 'shape', ()))
        if es != os_ or flat_vals(B, exp) != flat_vals(B, out):
            if kind == 'other':
                pass     # judged by alignment only
            else:
                return False, 'values differ from plain indexing with translated positions', None
    if not hasattr(out, 'shape') or tuple(out.shape) == () and not is_sample(B, out):
        H.mark('scalar')
        if is_sample(B, out):
            return False, 'single value not returned as plain scalar', None
        return True, '', None
    if e[0] == 'ok' and tuple(getattr(e[1], 'shape', (1,))) == () and kind == 'std':
        if is_sample(B, out) or tuple(getattr(out, 'shape', ())) != ():
            return False, 'single value not returned as plain scalar', None
    if is_sample(B, out):
        H.mark('sample-result')
        why = aligned(B, out, meta, D)
        if why is not None:
            return False, 'metadata misaligned: ' + why, None
        return True, '', out
    H.mark('plain-result')
    return True, '', None


def body_get(B, I):
    N, D = I['N'], I['D']
    with ch.NoTracing():
        d, plain, meta, names = mk(B, N, D)
        before = meta_of(d)
        d._vf_untraced_hooks = True
    P = I
    cur, curplain, curnames = d, plain, list(names)
    for step in range(I['steps']):
        with ch.NoTracing():
            Ps = dict(P)
        if step > 0:
            # later steps use the second half of the symbolic pool
            for k in list(DEFAULTS):
                Ps[k] = P[k + '_B']
        rows = build_rows(I['rform'] if step == 0 else I.get('rform2', I['rform']), Ps)
        cform = I['cform'] if step == 0 else I.get('cform2', I['cform'])
        if cform == 'absent':
            key, colkey, kind, has_cols = rows, None, 'std', False
        else:
            colkey, kind = build_cols(cform, Ps, curnames, B)
            key, has_cols = (rows, colkey), True
        # metadata source for alignment is always the original sample
        ok, detail, out = check_get(B, cur, curplain, meta, curnames, key, colkey, kind, has_cols)
        if not ok:
            return False, 'step %d: %s' % (step + 1, detail)
        if out is None or len(tuple(out.shape)) != 2:
            break
        cur = out
        curplain = B.np.array(flat_vals(B, out), dtype='int64').reshape(tuple(out.shape))
        curnames = list(out._channels)
    if meta_of(d) != before:
        return False, 'indexing changed the indexed sample'
    return True


def body_set(B, I):
    N, D = I['N'], I['D']
    with ch.NoTracing():
        d, plain, meta, names = mk(B, N, D)
        before = meta_of(d)
        d._vf_untraced_hooks = True
    rows = build_rows(I['rform'], I)
    cform = I['cform']
    if cform == 'absent':
        key, colkey, kind, has_cols = rows, None, 'std', False
    else:
        colkey, kind = build_cols(cform, I, list(names), B)
        key, has_cols = (rows, colkey), True
    val = 777

    def do(arr, k):
        arr[k] = val
    r = catch(do, d, key)
    tr = translate(colkey, names) if (has_cols and kind == 'std') else ('ok', colkey)
    if tr[0] == 'error':
        if r[0] == 'exc':
            after = flat_vals(B, d)
            return after == flat_vals(B, plain), 'failed assignment modified the sample'
        return False, 'assignment through unknown name / out-of-range position accepted'
    pkey = key if not has_cols else (key[0], tr[1])
    e = catch(do, plain, pkey)
    if r[0] == 'exc':
        if e[0] == 'exc' or kind == 'other':
            return True
        return False, 'valid assignment refused: %s' % (r[1],)
    if e[0] == 'exc':
        if kind == 'other':
            return True
        return False, 'assignment accepted although plain assignment raises'
    if flat_vals(B, d) != flat_vals(B, plain):
        if kind == 'other':
            # refused-or-aligned: writing other cells than plain NumPy is a violation too
            return False, 'assignment (other form) wrote different cells than plain assignment'
        return False, 'assignment wrote other cells than the addressed ones'
    if meta_of(d) != before:
        return False, 'assignment changed metadata'
    return True


# ------------------------------------------------------------------ condition factory

# row-key productions at three levels of richness: (estimated path classes, params, pre, consts)
ROW_LEVELS = {
    'int': [(8, [('k1', 'int')], [], {}),
            (5, [('k1', 'int')], ['-1 <= k1 <= 3'], {}),
            (1, [], [], {'k1': 1})],
    'slice': [(1010, [('a', 'int'), ('b', 'int'), ('s', 'int'), ('an', 'bool'), ('bn', 'bool'),
                      ('sn', 'bool')], ['s != 0 and -3 <= s <= 3 and -5 <= a <= 5 and -5 <= b <= 5'],
               {}),
              (80, [('a', 'int'), ('b', 'int'), ('s', 'int'), ('an', 'bool'), ('bn', 'bool'),
                    ('sn', 'bool')], ['-1 <= a <= 2 and -1 <= b <= 2 and s in (-1, 2)'], {}),
              (4, [('a', 'int')], ['-1 <= a <= 2'], {'bn': True, 'sn': True, 'an': False})],
    'list': [(64, [('k1', 'int'), ('k2', 'int')], [], {}),
             (25, [('k1', 'int'), ('k2', 'int')], ['-1 <= k1 <= 3 and -1 <= k2 <= 3'], {}),
             (4, [('k1', 'int'), ('k2', 'int')], ['-1 <= k1 <= 0 and 1 <= k2 <= 2'], {})],
    'mask': [(8, [('m0', 'bool'), ('m1', 'bool'), ('m2', 'bool')], [], {})],
    'ell': [(1, [], [], {})],
}
COL_EST = {'absent': 1, 'int': 8, 'name': 13, 'slice': 80, 'slice_full': 1010, 'list0': 1,
           'list1': 11, 'list2': 121, 'list3': 1331, 'tuple1': 11, 'tuple2': 121, 'tuple3': 1331,
           'ell': 1, 'boollist': 8, 'npint': 8, 'none': 1}


def row_spec(rform, cform, budget):
    ce = COL_EST[cform]
    for lv in ROW_LEVELS[rform]:
        if lv[0] * ce <= budget:
            return lv
    return ROW_LEVELS[rform][-1]


COL_PARAMS = {
    'absent': ([], []),
    'int': ([('c', 'Tuple[int, int, int]')], []),
    'npint': ([('c', 'Tuple[int, int, int]')], []),
    'name': ([('nm0', 'str')], ['len(nm0) <= 2 and all(ch_ in "abz" for ch_ in nm0)']),
    'slice': ([('ca', 'int'), ('cb', 'int'), ('cs', 'int'), ('can', 'bool'), ('cbn', 'bool'),
               ('csn', 'bool')], ['-1 <= ca <= 2 and -1 <= cb <= 2 and cs in (-1, 2)']),
    'slice_full': ([('ca', 'int'), ('cb', 'int'), ('cs', 'int'), ('can', 'bool'), ('cbn', 'bool'),
                    ('csn', 'bool')],
                   ['cs != 0 and -3 <= cs <= 3 and -5 <= ca <= 5 and -5 <= cb <= 5']),
    'list': ([('c', 'Tuple[int, int, int]'), ('isname', 'Tuple[bool, bool, bool]'),
              ('nmi', 'Tuple[int, int, int]')],
             ['all(0 <= x <= 5 for x in nmi)', 'all(-1 <= x <= 3 for x in c)']),
    'ell': ([], []),
    'boollist': ([('m0', 'bool'), ('m1', 'bool'), ('m2', 'bool')], []),
    'none': ([], []),
}
COL_PARAMS['perm4'] = ([('pi', 'int'), ('isname', 'Tuple[bool, bool, bool]')], ['0 <= pi <= 23'])
COL_EST['perm4'] = 48
COL_PARAMS['tuple'] = COL_PARAMS['list']
for _n in range(4):
    COL_PARAMS['list%d' % _n] = COL_PARAMS['list']
    COL_PARAMS['tuple%d' % _n] = COL_PARAMS['list']
NAME_TABLE = ('a', 'b', 'c', 'd', 'zz', '')
DEFAULTS = dict(k1=0, k2=0, a=0, b=0, s=1, an=True, bn=True, sn=True, m0=True, m1=True, m2=True,
                c=(0, 0, 0), isname=(False, False, False), nm0='a', nmi=(0, 0, 0), pi=0,
                ca=0, cb=0, cs=1, can=True, cbn=True, csn=True)


def make_cond(rform, cform, N, D, steps, maxlen, setitem=False, cform2=None, rform2=None,
              budget=1500):
    body = body_set if setitem else body_get

    def make(env):
        params, pre, seen = [], [], set()
        consts = dict(DEFAULTS)
        consts.update({k + '_B': v for k, v in DEFAULTS.items()})

        def add(ps, pr, cst, suffix=''):
            for (n, t) in ps:
                if n + suffix not in seen:
                    seen.add(n + suffix)
                    params.append((n + suffix, t))
            for p_ in pr:
                q_ = p_
                if suffix:
                    for (n, t) in ps:
                        q_ = _rename(q_, n, n + suffix)
                if q_ not in pre:
                    pre.append(q_)
            for k, v in cst.items():
                consts[k + suffix] = v
        if cform2 is None:
            _, ps, pr, cst = row_spec(rform, cform, budget)
            add(ps, pr, cst)
            add(COL_PARAMS[cform][0], COL_PARAMS[cform][1], {})
        else:
            b1 = max(30, int(budget ** 0.5))
            _, ps, pr, cst = row_spec(rform, cform, b1 * 3)
            add(ps, pr, cst)
            add(COL_PARAMS[cform][0], COL_PARAMS[cform][1], {})
            _, ps, pr, cst = row_spec(rform2, cform2, b1)
            add(ps, pr, cst, '_B')
            add(COL_PARAMS[cform2][0], COL_PARAMS[cform2][1], {}, '_B')
        for n, _ in params:
            consts.pop(n, None)
        consts.update(rform=rform, cform=cform, N=N, D=D, steps=steps, maxlen=maxlen)
        if cform2 is not None:
            consts.update(cform2=cform2, rform2=rform2)
        return cond_fn('index', params, body, pre=pre, consts=consts)
    return make


def _rename(expr, old, new):
    import re
    return re.sub(r'\b%s\b' % re.escape(old), new, expr)


def replay_for(setitem):
    return std_replay(body_set if setitem else body_get)


# ------------------------------------------------------------------ model validation

def run_validate(env):
    """Direct: symnp plain indexing vs the installed NumPy over an exhaustive key grid."""
    import numpy as rnp
    snp = env.np
    N, D = 3, 3
    rows = [[10 * i + j for j in range(D)] for i in range(N)]
    ints = [-4, -3, -1, 0, 1, 2, 3]
    sl = [slice(None), slice(1, None), slice(None, -1), slice(None, None, -1), slice(0, 3, 2),
          slice(-1, -4, -2), slice(2, 0), slice(5, 9), slice(None, None, 2)]
    lists = [[0], [2, 0], [-1, 1], [0, 0], [], [3], [1, -4]]
    masks = [[True, False, True], [False, False, False], [True, True, True], [True, False]]
    parts = [('i', v) for v in ints] + [('s', v) for v in sl] + [('l', v) for v in lists] + \
            [('m', v) for v in masks] + [('e', Ellipsis), ('n', None)]
    n = 0
    bad = []
    keys = [p[1] for p in parts] + [(p[1], q[1]) for p in parts for q in parts]

    def norm(x, npmod):
        if isinstance(x, npmod.ndarray):
            return ('arr', tuple(x.shape), [int(v) for v in flat_any(x)])
        return ('sc', int(x))

    def flat_any(x):
        out = []

        def rec(v):
            if isinstance(v, list):
                for e in v:
                    rec(e)
            else:
                out.append(v)
        rec(x.tolist())
        return out
    for key in keys:
        n += 1
        ra = rnp.array(rows)
        sa = snp.array(rows)
        try:
            r1 = norm(ra[key], rnp)
        except Exception as e:
            r1 = ('exc', type(e).__name__)
        try:
            r2 = norm(sa[key], snp)
        except Exception as e:
            r2 = ('exc', type(e).__name__)
        if r1 != r2:
            bad.append((repr(key), r1, r2))
            continue
        # assignment through the same key
        ra2, sa2 = rnp.array(rows), snp.array(rows)
        try:
            ra2[key] = 777
            w1 = ('ok', [int(v) for v in flat_any(ra2)])
        except Exception as e:
            w1 = ('exc', type(e).__name__)
        try:
            sa2[key] = 777
            w2 = ('ok', [int(v) for v in flat_any(sa2)])
        except Exception as e:
            w2 = ('exc', type(e).__name__)
        if w1 != w2:
            bad.append(('set ' + repr(key), w1, w2))
    status = 'confirmed' if not bad else 'error'
    return {'status': status, 'direct_queries': 0, 'paths_done': 0, 'validated_cases': n,
            'detail': '' if not bad else 'symnp indexing disagrees with NumPy: %s' % (bad[:5],),
            'samples': [{'validated_keys': n}]}


# ------------------------------------------------------------------ conditions

RFORMS = ('int', 'slice', 'list', 'mask', 'ell')
def cforms(maxlen):
    return ('absent', 'int', 'name', 'slice') + tuple('list%d' % n for n in range(maxlen + 1)) + \
        tuple('tuple%d' % n for n in range(1, maxlen + 1)) + ('ell', 'boollist', 'npint', 'none')


def conditions(tier):
    q = tier == 'quick'
    N, D = (3, 3) if q else (3, 4)
    maxlen = 2 if q else 3
    budget = 1200 if q else 9000
    tmo = 300 if q else 2400
    cs = [Cond('model_indexing_vs_numpy', kind='direct', run=run_validate, timeout=120,
               doc='symnp plain get/set indexing == installed NumPy on an exhaustive key grid')]
    cfs = list(cforms(maxlen))
    if not q:
        cfs[cfs.index('slice')] = 'slice_full'
    for rf in RFORMS:
        for cf in cfs:
            cs.append(Cond('get_%s_%s' % (rf, cf),
                           make=make_cond(rf, cf, N, D, 1, maxlen, budget=budget),
                           replay=replay_for(False), timeout=tmo,
                           doc='d[rows:%s, cols:%s] values == plain indexing with translated '
                               'positions; seven attributes == those of the selected columns in '
                               'order; errors for unknown names/out-of-range' % (rf, cf)))
    for rf in RFORMS:
        for cf in ('absent', 'int', 'name', 'slice', 'list1', 'list2', 'ell', 'boollist'):
            cs.append(Cond('set_%s_%s' % (rf, cf),
                           make=make_cond(rf, cf, N, D, 1, maxlen, True, budget=budget),
                           replay=replay_for(True), timeout=tmo,
                           doc='d[rows:%s, cols:%s] = v writes exactly the addressed cells'
                               % (rf, cf)))
    # chains: first step a 2-d-preserving selection, second step any column form
    for rf in ('ell', 'slice', 'mask'):
        cs.append(Cond('get_%s_perm4' % rf, make=make_cond(rf, 'perm4', 3, 4, 1, maxlen,
                                                           budget=budget),
                       replay=replay_for(False), timeout=tmo,
                       doc='3x4 sample, all four channels listed in a symbolic order (names and '
                           'positions mixed): values and metadata follow the requested order'))
    cs.append(Cond('set_ell_perm4', make=make_cond('ell', 'perm4', 3, 4, 1, maxlen, True,
                                                   budget=budget),
                   replay=replay_for(True), timeout=tmo, doc='assignment through the same key'))
    if q:
        chains = [(('ell', 'list1'), ('ell', 'int')), (('ell', 'list1'), ('ell', 'name')),
                  (('ell', 'list1'), ('int', 'absent')), (('ell', 'list1'), ('ell', 'list1')),
                  (('ell', 'slice'), ('ell', 'int')), (('list', 'list1'), ('ell', 'int'))]
    else:
        firsts = [('ell', 'list2'), ('mask', 'slice'), ('list', 'list2'), ('slice', 'list1')]
        seconds = [('ell', 'int'), ('int', 'absent'), ('ell', 'name'), ('ell', 'list2'),
                   ('slice', 'slice')]
        chains = [(f, s_) for f in firsts for s_ in seconds]
    for ((r1, c1), (r2, c2)) in chains:
        cs.append(Cond('chain_%s_%s__%s_%s' % (r1, c1, r2, c2),
                       make=make_cond(r1, c1, N, D, 2, 2, False, c2, r2, budget=budget * 2),
                       replay=replay_for(False), timeout=tmo * 2,
                       doc='two successive indexings; alignment judged against the '
                           'original sample\'s metadata'))
    if not q:
        for (r3, c3) in (('ell', 'int'), ('ell', 'list2')):
            cs.append(Cond('chain3_%s_%s' % (r3, c3), make=make_chain3(N, D, r3, c3),
                           replay=std_replay(body_chain3), timeout=tmo,
                           doc='three successive indexings (cols list2, cols slice, then %s/%s)'
                               % (r3, c3)))
    return cs


def body_chain3(B, I):
    """Three successive column selections; alignment judged against the original metadata."""
    N, D = I['N'], I['D']
    with ch.NoTracing():
        d, plain, meta, names = mk(B, N, D)
        d._vf_untraced_hooks = True
    cur, curplain, curnames = d, plain, list(names)
    keys = []
    P1 = dict(DEFAULTS)
    P1.update(c=I['c'], isname=I['isname'], nmi=I['nmi'])
    keys.append(('ell', 'list2', P1))
    P2 = dict(DEFAULTS)
    P2.update(ca=I['ca'], cb=I['cb'], cs=I['cs'], can=I['can'], cbn=I['cbn'], csn=True)
    keys.append(('ell', 'slice', P2))
    P3 = dict(DEFAULTS)
    P3.update(c=I['c3'], isname=I['isname3'], nmi=I['nmi3'])
    keys.append((I['r3'], I['c3form'], P3))
    for step, (rf, cf, P) in enumerate(keys):
        P['N'], P['D'] = N, D
        rows = build_rows(rf, P)
        colkey, kind = build_cols(cf, P, curnames, B)
        ok, detail, out = check_get(B, cur, curplain, meta, curnames, (rows, colkey), colkey, kind,
                                    True)
        if not ok:
            return False, 'step %d: %s' % (step + 1, detail)
        if out is None or len(tuple(out.shape)) != 2:
            break
        cur = out
        curplain = B.np.array(flat_vals(B, out), dtype='int64').reshape(tuple(out.shape))
        curnames = list(out._channels)
    return True


def make_chain3(N, D, r3, c3form):
    def make(env):
        params = [('c', 'Tuple[int, int, int]'), ('isname', 'Tuple[bool, bool, bool]'),
                  ('nmi', 'Tuple[int, int, int]'), ('ca', 'int'), ('cb', 'int'), ('cs', 'int'),
                  ('can', 'bool'), ('cbn', 'bool'), ('c3', 'Tuple[int, int, int]'),
                  ('isname3', 'Tuple[bool, bool, bool]'), ('nmi3', 'Tuple[int, int, int]')]
        pre = ['all(0 <= x <= 5 for x in nmi)', 'all(-1 <= x <= 3 for x in c)',
               '-1 <= ca <= 2 and -1 <= cb <= 2 and cs in (-1, 2)',
               'all(0 <= x <= 5 for x in nmi3)', 'all(-1 <= x <= 3 for x in c3)']
        return cond_fn('chain3', params, body_chain3, pre=pre,
                       consts={'N': N, 'D': D, 'r3': r3, 'c3form': c3form})
    return make
