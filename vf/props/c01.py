"""C01 - loading an FCS file returns exactly the events recorded in it.

H1  data decoding: direct z3 bit-vector queries over the real read_fcs_data_segment
    executed on symnp with symbolic file bytes (one query per layout).
H2  layout decisions of FCSFile.__init__ (CrossHair) with recording segment readers.
H3  header fields (CrossHair).
"""
import itertools
import time
import warnings

import z3

from ..driver import Cond
from ..harness import H, Reject, catch, cond_fn, shadow_type
from .. import ch
from ..symnp.scalars import BVT
from .common import std_replay

INFO = {
    'explanation': 'H1: the real source of io.read_fcs_data_segment is executed on the symnp '
                   'model over a file of symbolic bytes (8-bit z3 bit-vectors); np.memmap is a '
                   'byte-exact decoder bounded by the file length.  For every enumerated layout '
                   '(configuration) one z3 query asks for bytes making some cell differ from an '
                   'independently written positional specification (value = sum byte_k*256^pos, '
                   'reduced to the low ceil(log2 R) bits; floats as IEEE bit patterns); unsat = '
                   'holds for all 2^(8*len) files of that layout.  H2/H3: CrossHair explores '
                   'FCSFile.__init__ / read_fcs_header_segment with symbolic offsets, keywords, '
                   'widths and version; the segment readers are recording stubs.',
    'functions': ['FlowCal.io.read_fcs_data_segment', 'FlowCal.io.FCSFile.__init__',
                  'FlowCal.io.read_fcs_header_segment'],
    'bounds': {'quick': {'H1': 'D<=2 parameters, widths {8..64}^D, N in {0,1,2} events, both byte '
                               'orders, both end conventions, 5 range classes, 3 symbolic padding '
                               'bytes before and after DATA; F and D floats',
                         'H2': 'D in 1..2, symbolic widths/offsets/$TOT, keyword spellings from '
                               'tables that include unsupported ones'},
               'thorough': {'H1': 'D<=3'}},
    'outside': ['N>2 events (rows are handled by element-wise/vectorised operations only)',
                'D>3', 'the OS mmap', 'np.log2 rounding for $PnR > 2^53'],
    'stubs': ['file object with symbolic bytes', 'np.memmap contract (see symnp/memmap.py)',
              'numerals: keyword values are abstract numerals (NumStr) whose int()/float() is '
              'the symbolic number'],
    'assumptions': ['segment readers behave as established by H1/H3/C14 (assume/guarantee)'],
}


class SymFile(object):
    def __init__(self, n, prefix='b'):
        self._vf_bytes = [BVT(z3.BitVec('%s%d' % (prefix, i), 8)) for i in range(n)]
        self._vf_len = n


def spec_cell(fbytes, off, nbytes, big, R, datatype):
    """Independent specification of one cell."""
    bs = [fbytes[off + k].e for k in range(nbytes)]
    if big:
        order = bs
    else:
        order = list(reversed(bs))
    e = order[0]
    for b in order[1:]:
        e = z3.Concat(e, b)                  # most significant byte first
    if datatype != 'I':
        return e, nbytes * 8
    if R is not None:
        bits = (int(R) - 1).bit_length()     # least b with 2^b >= R (exact)
        w = nbytes * 8
        if bits < w:
            if bits == 0:
                e = z3.BitVecVal(0, w)
            else:
                e = z3.ZeroExt(w - bits, z3.Extract(bits - 1, 0, e))
    return e, nbytes * 8


def _range_classes(w):
    full = 1 << w
    out = [full]
    if w > 3:
        out.append(1 << (w - 3))
    out.append(full - 3 if full > 4 else full)
    out.append((1 << (w - 1)) + 1)
    out.append(1000 if w >= 16 else 100)
    return out


def run_h1(kind, Ds, job, njobs):
    def run(env):
        t0 = time.time()
        io = env.FlowCal.io
        np = env.np
        nq = 0
        bad = []
        samples = []
        solver = z3.Solver()
        layouts = []
        if kind == 'I':
            widths = [8, 16, 24, 32, 40, 48, 56, 64]
            for D in Ds:
                for ws in itertools.product(widths, repeat=D):
                    for big in (True, False):
                        for N in (1, 2):
                            for one_past in (False, True):
                                for rc in range(5):
                                    layouts.append(('I', ws, big, N, one_past, rc))
            layouts.append(('I', (16,), True, 0, False, 0))
            layouts.append(('I', (8, 24), False, 0, True, 0))
        else:
            for dt, w in (('F', 32), ('D', 64)):
                for D in Ds:
                    for big in (True, False):
                        for N in (0, 1, 2):
                            for one_past in (False, True):
                                layouts.append((dt, (w,) * D, big, N, one_past, 0))
        layouts = [l for i, l in enumerate(layouts) if i % njobs == job]
        for (dt, ws, big, N, one_past, rc) in layouts:
            D = len(ws)
            rowbytes = sum(w // 8 for w in ws)
            pad = 3
            begin = pad
            nbytes = N * rowbytes
            L = pad + nbytes + pad
            f = SymFile(L)
            end = begin + nbytes - 1 + (1 if one_past else 0)
            ranges = None
            if dt == 'I':
                ranges = [float(_range_classes(w)[rc]) if w < 54 else
                          float(1 << w if rc != 1 else 1 << (w - 3)) for w in ws]
            if N == 0 and not one_past:
                # begin == end+1: zero bytes; only the one-past convention is meaningful
                end = begin - 1
            r = catch(io.read_fcs_data_segment, f, begin, end, dt, N, list(ws), big, ranges)
            nq += 1
            if r[0] != 'ok':
                bad.append((str((dt, ws, big, N, one_past, rc)), 'raised %s: %s' % (r[1], r[2])))
                continue
            data = r[1]
            if tuple(data.shape) != (N, D):
                bad.append((str((dt, ws, big, N, one_past, rc)), 'shape %s' % (data.shape,)))
                continue
            diffs = []
            cells = data._elems()
            for i in range(N):
                col_off = 0
                for j in range(D):
                    nb = ws[j] // 8
                    exp, w = spec_cell(f._vf_bytes, begin + i * rowbytes + col_off, nb, big,
                                       None if ranges is None else ranges[j], dt)
                    col_off += nb
                    got = cells[i * D + j]
                    if type(got) is BVT:
                        g = got.e
                    else:
                        g = z3.BitVecVal(int(got), w)
                    gw = g.size()
                    if gw > w:
                        exp = z3.ZeroExt(gw - w, exp)
                    elif gw < w:
                        diffs.append(z3.BoolVal(True))
                        continue
                    diffs.append(g != exp)
            if diffs:
                solver.push()
                solver.add(z3.Or(*diffs))
                res = solver.check()
                if str(res) == 'sat':
                    m = solver.model()
                    fb = [m.eval(b.e, model_completion=True).as_long() for b in f._vf_bytes]
                    bad.append((str((dt, ws, big, N, one_past, rc)), {'file_bytes': fb}))
                elif str(res) != 'unsat':
                    bad.append((str((dt, ws, big, N, one_past, rc)), 'solver: %s' % res))
                solver.pop()
            if len(samples) < 2:
                samples.append({'layout': {'datatype': dt, 'widths': ws, 'big_endian': big,
                                           'events': N, 'end_one_past': one_past,
                                           'ranges': ranges}, 'verdict': 'unsat (holds)'})
        out = {'status': 'confirmed' if not bad else 'violation', 'direct_queries': nq,
               'paths_done': 0, 'samples': samples}
        if bad:
            out['cex'] = {'condition': 'decode', 'inputs': {'layout': bad[0][0],
                                                           'witness': bad[0][1]},
                          'reals': {}, 'detail': 'decoded cell differs from the encoded value'}
            out['what'] = 'data decoding differs from the positional specification'
            # replay on the real library
            rep = replay_h1(env, bad[0])
            if rep is True:
                out['status'] = 'violation'
            elif rep is False:
                out['status'] = 'cex_not_reproduced'
                out['detail'] = 'model counterexample %s does not reproduce' % (bad[0],)
            else:
                out['status'] = 'violation'      # refusal/shape errors reproduce by construction
                out['detail'] = str(rep)
        return out
    return run


def replay_h1(env, bad):
    """Write the witness file and decode it with the real library."""
    import ast
    import os
    import tempfile
    from .. import rehost
    layout = ast.literal_eval(bad[0])
    dt, ws, big, N, one_past, rc = layout
    wit = bad[1]
    real = rehost.RealEnv(env.repo)
    rowbytes = sum(w // 8 for w in ws)
    pad = 3
    nbytes = N * rowbytes
    if isinstance(wit, dict):
        fb = bytes(wit['file_bytes'])
    else:
        fb = bytes((37 * i + 11) % 256 for i in range(pad + nbytes + pad))
    ranges = None
    if dt == 'I':
        ranges = [float(_range_classes(w)[rc]) if w < 54 else
                  float(1 << w if rc != 1 else 1 << (w - 3)) for w in ws]
    begin = pad
    end = begin + nbytes - 1 + (1 if one_past else 0)
    if N == 0 and not one_past:
        end = begin - 1
    fd, path = tempfile.mkstemp(suffix='.bin')
    os.write(fd, fb)
    os.close(fd)
    try:
        with open(path, 'rb') as f:
            try:
                data = real.FlowCal.io.read_fcs_data_segment(f, begin, end, dt, N, list(ws), big,
                                                            ranges)
            except Exception as e:
                return 'real library raises %s: %s' % (type(e).__name__, e)
        if tuple(data.shape) != (N, len(ws)):
            return True
        import struct
        for i in range(N):
            off = begin + i * rowbytes
            for j, w in enumerate(ws):
                nb = w // 8
                raw = fb[off:off + nb]
                off += nb
                if dt == 'I':
                    v = int.from_bytes(raw, 'big' if big else 'little')
                    bits = (int(ranges[j]) - 1).bit_length()
                    v &= (1 << bits) - 1
                    if int(data[i, j]) != v:
                        return True
                else:
                    fmt = ('>' if big else '<') + ('f' if dt == 'F' else 'd')
                    v = struct.unpack(fmt, raw)[0]
                    g = data[i, j]
                    if not (g == v or (g != g and v != v)):
                        return True
        return False
    finally:
        os.unlink(path)


# ------------------------------------------------------------------ H2: FCSFile.__init__

class NumStr(object):
    """Abstract numeral: a keyword value whose int()/float() is `n`."""

    def __init__(self, n):
        # the number is held in a closure: CrossHair deep-realises the arguments of
        # str.format (error messages), which would otherwise enumerate its values
        self._get = lambda: n

    @property
    def n(self):
        return self._get()

    def __copy__(self):
        return self

    def __deepcopy__(self, memo):
        return self

    def __format__(self, spec):
        return 'NUM'

    def __str__(self):
        return 'NUM'

    def __eq__(self, o):
        return isinstance(o, NumStr) and o.n == self.n

    def __ne__(self, o):
        return not self.__eq__(o)

    def __hash__(self):
        return 7


def model_int(x=0, *a):
    if isinstance(x, NumStr):
        return x.n
    if hasattr(x, '_vf_int'):
        return x._vf_int()
    return int(x, *a)


def model_float(x=0.0):
    if isinstance(x, NumStr):
        return x.n
    return float(x)


MODES = ['L', 'H', 'C', 'l', '']
DTYPES = ['I', 'F', 'D', 'A', 'i', 'X']
BYTEORDS = ['4,3,2,1', '2,1', '1,2,3,4', '1,2', '3,4,1,2', '2,1,4,3', '2,1,3,4', '1,2,3',
            '4,3,2,1 ', '', '1', '2,1,', '8,7,6,5,4,3,2,1']
VERSIONS = ['FCS2.0', 'FCS3.0', 'FCS3.1', 'FCS1.0', 'FCS3.2']


class Recorder(object):
    def __init__(self):
        self.calls = []


def run_fcsfile(B, I, rec, text, header_fields, stext=None, analysis_raises=False,
                analysis_ret=None):
    """Execute the real FCSFile.__init__ with recording segment readers."""
    io = B.FC.io
    import collections
    FCSHeader = collections.namedtuple('FCSHeader', ['version', 'text_begin', 'text_end',
                                                     'data_begin', 'data_end',
                                                     'analysis_begin', 'analysis_end'])
    header = FCSHeader(*header_fields)
    sentinel = B.np.zeros((1, 1))

    def r_header(buf, begin=0):
        rec.calls.append(('header', begin))
        return header

    def r_text(buf, begin, end, delim=None, supplemental=False):
        rec.calls.append(('text', begin, end, delim, supplemental))
        if not supplemental:
            return dict(text), '|'
        nsupp = len([c for c in rec.calls if c[0] == 'text' and c[4]])
        if stext is not None and stext[2] and nsupp == 1:
            return dict(stext[1]), delim
        if analysis_raises:
            raise ValueError('bad analysis')
        return dict(analysis_ret or {}), delim

    def r_data(buf, begin, end, datatype, num_events, param_bit_widths, big_endian,
               param_ranges=None):
        rec.calls.append(('data', begin, end, datatype, num_events, list(param_bit_widths),
                          big_endian, None if param_ranges is None else list(param_ranges)))
        return sentinel
    saved = (io.read_fcs_header_segment, io.read_fcs_text_segment, io.read_fcs_data_segment)
    io.read_fcs_header_segment, io.read_fcs_text_segment, io.read_fcs_data_segment = \
        r_header, r_text, r_data
    try:
        with warnings.catch_warnings(record=True) as w:
            warnings.simplefilter('always')
            r = catch(io.FCSFile, object())
            nwarn = len(w)
    finally:
        io.read_fcs_header_segment, io.read_fcs_text_segment, io.read_fcs_data_segment = saved
    return r, sentinel, nwarn


def base_text(D, widths, ranges, tot, mode='L', dtype='I', byteord='4,3,2,1', extra=None):
    t = {'$BEGINSTEXT': NumStr(0), '$ENDSTEXT': NumStr(0), '$MODE': mode, '$DATATYPE': dtype,
         '$PAR': NumStr(D), '$BYTEORD': byteord, '$NEXTDATA': NumStr(0),
         '$BEGINANALYSIS': NumStr(0), '$ENDANALYSIS': NumStr(0), '$TOT': NumStr(tot),
         '$BEGINDATA': NumStr(0), '$ENDDATA': NumStr(0)}
    for p in range(1, D + 1):
        t['$P%dB' % p] = NumStr(widths[p - 1])
        t['$P%dR' % p] = NumStr(ranges[p - 1])
    if extra:
        t.update(extra)
    return t


def body_layout(B, I):
    if B.kind == 'real':
        return replay_layout(B, I)
    D = I['D']
    mode = MODES[ch.pick(I['mi'], 0, len(MODES))]
    dtype = DTYPES[I['ti']]
    byteord = BYTEORDS[ch.pick(I['bi'], 0, len(BYTEORDS))]
    widths = list(I['w'])[:D]
    ranges = list(I['r'])[:D]
    tot = I['tot']
    text = base_text(D, widths, ranges, tot, mode, dtype, byteord)
    rec = Recorder()
    r, sentinel, _ = run_fcsfile(B, I, rec, text, ('FCS3.0', 58, 100, 200, 300, 0, 0))
    bad_width = False
    if dtype == 'I':
        for w in widths:
            if w % 8 != 0:
                bad_width = True
    unsupported = (mode != 'L') or (dtype not in ('I', 'F', 'D')) or bad_width or \
        (byteord not in ('4,3,2,1', '2,1', '1,2,3,4', '1,2'))
    data_calls = [c for c in rec.calls if c[0] == 'data']
    if unsupported:
        H.mark('unsupported')
        if r[0] == 'exc' and r[1] == 'NotImplementedError' and not data_calls:
            return True
        return False, 'layout: unsupported layout not refused (mode=%r datatype=%r byteord=%r ' \
                      'bad_width=%s -> %s)' % (mode, dtype, byteord, bad_width, r[0])
    if r[0] != 'ok':
        return False, 'layout: supported layout refused: %s' % (r[1],)
    H.mark('supported')
    if len(data_calls) != 1:
        return False, 'layout: data reader not called exactly once'
    c = data_calls[0]
    big = byteord in ('4,3,2,1', '2,1')
    if (c[1], c[2]) != (200, 300):
        return False, 'layout: wrong DATA offsets'
    if c[3] != dtype or not (c[4] == tot) or c[6] != big:
        return False, 'layout: wrong datatype / event count / byte order passed'
    if len(c[5]) != D or any(not (a == b) for a, b in zip(c[5], widths)):
        return False, 'layout: bit widths not in parameter order'
    if c[7] is None or len(c[7]) != D or any(not (a == b) for a, b in zip(c[7], ranges)):
        return False, 'layout: ranges not in parameter order'
    f = r[1]
    if f.data is not sentinel:
        return False, 'layout: returned data is not what the reader returned'
    if f.data.flags.writeable:
        return False, 'layout: data left writeable'
    return True


def replay_layout(B, I):
    """Real library: write a small concrete file with these keywords and load it."""
    from . import fcsgen
    D = I['D']
    mode, dtype, byteord = MODES[I['mi']], DTYPES[I['ti']], BYTEORDS[I['bi']]
    widths = [int(x) for x in list(I['w'])[:D]]
    ranges = [int(x) for x in list(I['r'])[:D]]
    bad_width = dtype == 'I' and any(w % 8 for w in widths)
    unsupported = (mode != 'L') or (dtype not in ('I', 'F', 'D')) or bad_width or \
        (byteord not in ('4,3,2,1', '2,1', '1,2,3,4', '1,2'))
    if dtype in ('F', 'D'):
        widths = [32 if dtype == 'F' else 64] * D
    wb = [max(8, (w + 7) // 8 * 8) for w in widths]
    events = [[(7 * i + 3 * j + 1) % 200 for j in range(D)] for i in range(2)]
    path = fcsgen.write_fcs(events, wb, big=byteord in ('4,3,2,1', '2,1'),
                            datatype=dtype if dtype in ('I', 'F', 'D') else 'I',
                            ranges=[max(2, r) for r in ranges],
                            overrides={'$MODE': mode, '$DATATYPE': dtype, '$BYTEORD': byteord,
                                       **{'$P%dB' % (p + 1): str(widths[p]) for p in range(D)}})
    import os
    try:
        r = catch(B.FC.io.FCSFile, path)
    finally:
        os.unlink(path)
    if unsupported:
        if r[0] == 'exc' and r[1] == 'NotImplementedError':
            return True
        return False, 'layout: unsupported layout not refused (mode=%r datatype=%r byteord=%r ' \
                      'bad_width=%s -> %s)' % (mode, dtype, byteord, bad_width, r[0])
    if r[0] != 'ok':
        return False, 'layout: supported layout refused: %s' % (r[1],)
    return True


def make_layout(ti, D):
    def make(env):
        env.shadow('io', float=model_float, int=model_int)
        return cond_fn('fcsfile_layout',
                       [('mi', 'int'), ('bi', 'int'),
                        ('w', 'Tuple[int, int]'), ('r', 'Tuple[int, int]'), ('tot', 'int')],
                       body_layout,
                       pre=['0 <= mi < %d' % len(MODES),
                            '0 <= bi < %d' % len(BYTEORDS), 'all(1 <= x <= 64 for x in w)',
                            'all(1 <= x for x in r)', 'tot >= 0'], consts={'ti': ti, 'D': D})
    return make


def body_offsets(B, I):
    """HEADER offsets when both non-zero, else (3.x only) TEXT offsets, else ValueError."""
    if B.kind == 'real':
        return replay_offsets(B, I)
    version = VERSIONS[ch.pick(I['vi'], 0, len(VERSIONS))]
    hb, he, tb, te = I['hb'], I['he'], I['tb'], I['te']
    text = base_text(1, [16], [1024], 5, extra={'$BEGINDATA': NumStr(tb), '$ENDDATA': NumStr(te)})
    rec = Recorder()
    r, sentinel, _ = run_fcsfile(B, I, rec, text, (version, 58, 100, hb, he, 0, 0))
    data_calls = [c for c in rec.calls if c[0] == 'data']
    v3 = version in ('FCS3.0', 'FCS3.1')
    if hb != 0 and he != 0:
        exp = (hb, he)
        H.mark('header-offsets')
    elif v3 and tb != 0 and te != 0:
        exp = (tb, te)
        H.mark('text-offsets')
    else:
        exp = None
        H.mark('no-offsets')
    if exp is None:
        if r[0] == 'exc' and r[1] == 'ValueError' and not data_calls:
            return True
        return False, 'offsets: DATA without usable offsets not refused with ValueError'
    if r[0] != 'ok':
        return False, 'offsets: refused although offsets are given: %s' % (r[1],)
    if len(data_calls) != 1 or not (data_calls[0][1] == exp[0]) or not (data_calls[0][2] == exp[1]):
        return False, 'offsets: wrong offsets handed to the DATA reader (HEADER/TEXT priority)'
    c = data_calls[0]
    if c[3] != 'I' or not (c[4] == 5) or c[5] != [16] or c[6] is not True or c[7] is None or \
            len(c[7]) != 1 or not (c[7][0] == 1024):
        return False, 'offsets: datatype/events/widths/byte order/ranges not handed to the DATA ' \
                      'reader on this offset path'
    return True


def replay_offsets(B, I):
    from . import fcsgen
    import os
    version = VERSIONS[I['vi']]
    hb, he, tb, te = I['hb'], I['he'], I['tb'], I['te']
    v3 = version in ('FCS3.0', 'FCS3.1')
    events = [[1], [2], [65535]]          # last value has bits above the declared range 1024
    path, lay = fcsgen.write_fcs(events, [16], big=True, version=version, return_layout=True,
                                 ranges=[1024])
    # rewrite so that the requested side(s) carry the true offsets and the other side zeros
    true_b, true_e = lay['data_begin'], lay['data_end']
    use_header = hb != 0 and he != 0
    use_text = tb != 0 and te != 0
    os.unlink(path)
    path = fcsgen.write_fcs(events, [16], big=True, version=version, ranges=[1024],
                            header_data=(true_b, true_e) if use_header else (hb and true_b, he and true_e),
                            text_data=(true_b, true_e) if use_text else (tb and true_b, te and true_e))
    try:
        r = catch(B.FC.io.FCSFile, path)
    finally:
        os.unlink(path)
    expect_ok = use_header or (v3 and use_text)
    if expect_ok:
        if r[0] == 'ok' and r[1].data.tolist() == [[1], [2], [1023]]:
            return True
        if r[0] == 'ok' and r[1].data.tolist() == events:
            return False, 'offsets: datatype/events/widths/byte order/ranges not handed to the ' \
                          'DATA reader on this offset path'
        return False, 'offsets: wrong offsets handed to the DATA reader (HEADER/TEXT priority)'
    if r[0] == 'exc' and r[1] == 'ValueError':
        return True
    return False, 'offsets: DATA without usable offsets not refused with ValueError'


def make_offsets(env):
    env.shadow('io', float=model_float, int=model_int)
    return cond_fn('fcsfile_offsets',
                   [('vi', 'int'), ('hb', 'int'), ('he', 'int'), ('tb', 'int'), ('te', 'int')],
                   body_offsets,
                   pre=['0 <= vi < %d' % len(VERSIONS), 'hb >= 0 and he >= 0 and tb >= 0 and te >= 0'])


def body_text_merge(B, I):
    """Supplemental TEXT merged over primary; ANALYSIS parsed with the primary delimiter."""
    if B.kind == 'real':
        return replay_text_merge(B, I)
    version = VERSIONS[ch.pick(I['vi'], 0, len(VERSIONS))]
    sb, se = I['sb'], I['se']
    hab, hae, tab, tae = I['hab'], I['hae'], I['tab'], I['tae']
    araise = I['araise']
    text = base_text(1, [16], [1024], 5, extra={'$BEGINSTEXT': NumStr(sb), '$ENDSTEXT': NumStr(se),
                                               '$BEGINANALYSIS': NumStr(tab),
                                               '$ENDANALYSIS': NumStr(tae), 'K1': 'primary',
                                               'P1': 'p'})
    v3_ = version in ('FCS3.0', 'FCS3.1')
    stext = ((sb, se), {'K1': 'supp', 'S1': 's'}, bool(v3_ and sb != 0 and se != 0))
    rec = Recorder()
    r, sentinel, nwarn = run_fcsfile(B, I, rec, text, (version, 58, 100, 200, 300, hab, hae),
                                     stext=stext, analysis_raises=araise,
                                     analysis_ret={'A1': 'a'})
    if r[0] != 'ok':
        return False, 'text merge: load refused: %s' % (r[1],)
    f = r[1]
    v3 = version in ('FCS3.0', 'FCS3.1')
    tcalls = [c for c in rec.calls if c[0] == 'text']
    if not tcalls or tcalls[0][1:] != (58, 100, None, False):
        return False, 'text merge: primary TEXT not read from the HEADER offsets'
    exp = dict(text)
    idx = 1
    if v3 and sb != 0 and se != 0:
        H.mark('supplemental')
        exp.update(stext[1])
        if len(tcalls) <= idx or not (tcalls[idx][1] == sb and tcalls[idx][2] == se) or \
                tcalls[idx][3] != '|' or tcalls[idx][4] is not True:
            return False, 'text merge: supplemental TEXT not read at its offsets with the ' \
                          'primary delimiter'
        idx += 1
    got = dict(f.text)
    if set(got.keys()) != set(exp.keys()) or any(not (got[k] == exp[k]) for k in exp):
        return False, 'text merge: keywords differ from primary updated by supplemental'
    if hab != 0 and hae != 0:
        aexp = (hab, hae)
    elif v3 and tab != 0 and tae != 0:
        aexp = (tab, tae)
    else:
        aexp = None
    if aexp is None:
        if len(tcalls) != idx or f.analysis != {}:
            return False, 'text merge: ANALYSIS read although no offsets are given'
        return True
    H.mark('analysis')
    if len(tcalls) != idx + 1 or not (tcalls[idx][1] == aexp[0] and tcalls[idx][2] == aexp[1]) \
            or tcalls[idx][3] != '|' or tcalls[idx][4] is not True:
        return False, 'text merge: ANALYSIS not parsed at its offsets with the primary delimiter'
    if araise:
        if f.analysis != {} or nwarn < 1:
            return False, 'text merge: unparseable ANALYSIS must give a warning and {}'
    elif f.analysis != {'A1': 'a'}:
        return False, 'text merge: ANALYSIS keywords not returned'
    return True


def replay_text_merge(B, I):
    """Real file with the same features: supplemental TEXT present iff both offsets non-zero,
    ANALYSIS offsets in HEADER and/or TEXT, ANALYSIS parseable or not."""
    import os
    from . import fcsgen
    version = VERSIONS[I['vi']]
    v3 = version in ('FCS3.0', 'FCS3.1')
    has_s = I['sb'] != 0 and I['se'] != 0
    in_h = I['hab'] != 0 and I['hae'] != 0
    in_t = I['tab'] != 0 and I['tae'] != 0
    analysis = '||bad' if I['araise'] else 'A1|a|'
    path = fcsgen.write_fcs([[1], [2]], [16], version=version, extra_text={'K1': 'primary',
                            'P1': 'p'}, stext='K1|supp|S1|s|' if has_s else None,
                            analysis=analysis if (in_h or in_t) else None,
                            analysis_in_header=in_h, analysis_in_text=in_t)
    try:
        with warnings.catch_warnings(record=True) as w:
            warnings.simplefilter('always')
            r = catch(B.FC.io.FCSFile, path)
            nwarn = len(w)
    finally:
        os.unlink(path)
    if r[0] != 'ok':
        return False, 'text merge: load refused: %s' % (r[1],)
    f = r[1]
    exp_k1 = 'supp' if (v3 and has_s) else 'primary'
    if f.text.get('K1') != exp_k1 or f.text.get('P1') != 'p' or \
            (f.text.get('S1') != ('s' if (v3 and has_s) else None)):
        return False, 'text merge: supplemental TEXT not read at its offsets with the ' \
                      'primary delimiter'
    expect_a = in_h or (v3 and in_t)
    if not expect_a:
        return f.analysis == {}, 'text merge: ANALYSIS read although no offsets are given'
    if I['araise']:
        return (f.analysis == {} and nwarn >= 1), \
            'text merge: unparseable ANALYSIS must give a warning and {}'
    return f.analysis == {'A1': 'a'}, 'text merge: ANALYSIS keywords not returned'


def make_text_merge(env):
    env.shadow('io', float=model_float, int=model_int)
    return cond_fn('fcsfile_text_merge',
                   [('vi', 'int'), ('sb', 'int'), ('se', 'int'), ('hab', 'int'), ('hae', 'int'),
                    ('tab', 'int'), ('tae', 'int'), ('araise', 'bool')], body_text_merge,
                   pre=['0 <= vi < %d' % len(VERSIONS),
                        'min(sb, se, hab, hae, tab, tae) >= 0'])


# ------------------------------------------------------------------ H3: header

class HBytes(object):
    def __init__(self, start, k, fields, blank, version):
        self.start, self.k, self.fields, self.blank, self.version = start, k, fields, blank, version

    def decode(self, enc=None):
        if self.start == 0 and self.k == 10:
            return self.version + '    '
        i = (self.start - 10) // 8
        if (self.start - 10) % 8 == 0 and self.k == 8 and 0 <= i < 6 and i >= 4 and self.blank[i - 4]:
            return ' ' * 8
        return self      # a numeral: only int() is meaningful

    def _vf_int(self):
        i = (self.start - 10) // 8
        if (self.start - 10) % 8 == 0 and self.k == 8 and 0 <= i < 6:
            return self.fields[i]
        return -12345      # bytes that are not a header field

    def __eq__(self, o):
        return False

    def __ne__(self, o):
        return True

    def __hash__(self):
        return 1


class HBuf(object):
    def __init__(self, base, fields, blank, version):
        self.pos = None
        self.base, self.fields, self.blank, self.version = base, fields, blank, version

    def seek(self, n):
        self.pos = n - self.base

    def read(self, k):
        r = HBytes(self.pos, k, self.fields, self.blank, self.version)
        self.pos += k
        return r


def body_header(B, I):
    if B.kind == 'real':
        import io as _io
        fields = [int(x) for x in I['f']]
        blank = list(I['blank'])
        s = 'FCS3.0    ' + ''.join('%8d' % v for v in fields[:4])
        s += ''.join(' ' * 8 if blank[i] else '%8d' % fields[4 + i] for i in range(2))
        base = int(I['base'])
        r = catch(B.FC.io.read_fcs_header_segment, _io.BytesIO(b'x' * base + s.encode()), base)
        exp = fields[:4] + [0 if blank[i] else fields[4 + i] for i in range(2)]
        ok = r[0] == 'ok' and r[1].version == 'FCS3.0' and list(r[1][1:]) == exp
        return ok, 'header: fields differ from the spelled integers'
    fields = list(I['f'])
    blank = list(I['blank'])
    base = I['base']
    buf = HBuf(base, fields, blank, 'FCS3.0')
    r = catch(B.FC.io.read_fcs_header_segment, buf, base)
    if r[0] != 'ok':
        return False, 'header: raised %s' % (r[1],)
    h = r[1]
    exp = fields[:4] + [0 if blank[i] else fields[4 + i] for i in range(2)]
    if h.version != 'FCS3.0':
        return False, 'header: version not stripped/returned'
    names = ['text_begin', 'text_end', 'data_begin', 'data_end', 'analysis_begin', 'analysis_end']
    for i, nm in enumerate(names):
        if not (getattr(h, nm) == exp[i]):
            return False, 'header: fields differ from the spelled integers'
    return True


def make_header(env):
    env.shadow('io', float=model_float, int=model_int)
    return cond_fn('header_fields', [('f', 'Tuple[int, int, int, int, int, int]'),
                                     ('blank', 'Tuple[bool, bool]'), ('base', 'int')],
                   body_header, pre=['all(0 <= x <= 99999999 for x in f)', '0 <= base <= 3'])


def layout_conditions(tier):
    q = tier == 'quick'
    return [
        Cond('fcsfile_layout_%s_D%d' % (DTYPES[ti], D_), make=make_layout(ti, D_),
             replay=std_replay(body_layout),
             timeout=400 if q else 1500, modules=('plot', 'io'),
             doc='$DATATYPE=%r: refused (NotImplementedError) iff $MODE != L, $DATATYPE not in '
                 'I/F/D, an I width not a multiple of 8, or $BYTEORD not one of the four '
                 'spellings; else the reader gets datatype, $TOT, widths and ranges in parameter '
                 'order, big_endian <=> 4,3,2,1 / 2,1; returned data is the reader\'s, '
                 'unwriteable' % DTYPES[ti]) for ti in range(len(DTYPES)) for D_ in (1, 2)
    ] + [
        Cond('fcsfile_offsets', make=make_offsets, replay=std_replay(body_offsets),
             timeout=300, modules=('plot', 'io'),
             doc='HEADER DATA offsets when both non-zero, else TEXT offsets (3.x only), else '
                 'ValueError'),
        Cond('fcsfile_text_merge', make=make_text_merge, replay=std_replay(body_text_merge),
             timeout=400, modules=('plot', 'io'),
             doc='supplemental TEXT (3.x, both offsets non-zero) read with the primary delimiter '
                 'and merged over primary; ANALYSIS offsets HEADER first, then TEXT (3.x); '
                 'unparseable ANALYSIS -> warning and {}'),
    ]


def conditions(tier):
    q = tier == 'quick'
    Ds = (1, 2) if q else (1, 2, 3)
    nj = 6 if q else 14
    cs = [Cond('decode_int_%d' % j, kind='direct', run=run_h1('I', Ds, j, nj), timeout=600,
               modules=('plot', 'io'),
               doc='unsigned-integer decoding (uniform and mixed widths, mask) == positional '
                   'specification for all file bytes; layouts slice %d/%d' % (j + 1, nj))
          for j in range(nj)]
    cs.append(Cond('decode_float', kind='direct', run=run_h1('F', Ds, 0, 1), timeout=300,
                   modules=('plot', 'io'),
                   doc='F/D decoding: IEEE bit pattern == bytes in declared order'))
    cs += layout_conditions(tier)
    cs.append(Cond('header_fields', make=make_header, replay=std_replay(body_header), timeout=120,
                   modules=('plot', 'io'),
                   doc='field i is the integer spelled in bytes [10+8i,18+8i); blank ANALYSIS '
                       'fields give 0; begin offset honoured'))
    return cs
