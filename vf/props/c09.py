"""C09 - fitting the bead model: structural identities and optimisation-problem consistency."""
import types

from ..driver import Cond
from ..harness import H, Reject, catch, cond_fn
from .. import ch
from ..symnp import scalars
from ..symnp.scalars import RealT
from .common import std_replay

INFO = {
    'explanation': 'The 5% recovery accuracy is a convergence property of SciPy\'s compiled '
                   'L-BFGS-B on a non-convex transcendental objective and is NOT decided (no '
                   'bounded encoding).  Decided by CrossHair + z3 over the reals (exp/log '
                   'uninterpreted with exp(log x)=x, log(exp z)=z, monotonicity, x**m = '
                   'exp(m log x)), with scipy.optimize.minimize replaced by a stub returning an '
                   'arbitrary point of the box it is given: oddness, zero at zero and monotonicity '
                   'of the standard curve, bead model = standard curve - autofluorescence, '
                   'non-negative autofluorescence (read from the bounds the real code passes), '
                   'argument checks, and the necessary conditions for recovery that are visible '
                   'in the optimisation problem: every generating parameter triple is feasible '
                   'for the bounds, the objective is >= 0 and equals 0 at the generating '
                   'parameters.',
    'functions': ['FlowCal.mef.fit_beads_autofluorescence (incl. err_fun, fit_fun, sc_fun '
                  'closures)'],
    'bounds': {'quick': {'populations': '3-4 symbolic positive pairs'}, 'thorough': {}},
    'outside': ['recovery accuracy (optimizer convergence, initial guess, tolerances)'],
    'stubs': ['scipy.optimize.minimize: returns any x inside the bounds it receives'],
    'assumptions': ['exp/log strictly increasing, mutually inverse, exp>0; x**m = exp(m log x) '
                    'for x>0'],
}


def setup_env(env, minimal=False):
    if minimal:
        scalars.CONFIG.axioms = {'exp': (), 'log': (), 'pow': ()}
        scalars.CONFIG.inverses = (('log', 'exp'),)
        return
    scalars.CONFIG.axioms = {'exp': ('pos', 'mono', 'at0', 'hom'), 'log': ('mono', 'at1'),
                             'pow': ('explog', 'nonneg', 'mono_base')}
    scalars.CONFIG.inverses = (('log', 'exp'), ('exp', 'log'))


class Capture(object):
    pass


def run_fit(B, rfi, mefv, m, b, af, respect_bounds=True):
    """Call the real function with minimize stubbed; -> (result, capture)."""
    mef = B.FC.mef
    np = B.np
    cap = Capture()
    cap.bounds = None
    cap.fun = None
    cap.x0 = None

    def minimize(fun, x0, args=(), method=None, bounds=None, options=None, **kw):
        cap.bounds, cap.fun, cap.x0 = bounds, fun, x0
        return types.SimpleNamespace(x=np.array([m, b, af]), success=True)
    saved = mef.minimize
    mef.minimize = minimize
    try:
        r = catch(mef.fit_beads_autofluorescence, np.array(rfi), np.array(mefv))
    finally:
        mef.minimize = saved
    return r, cap


def mk_beads(B, n):
    rfi = [H.real('rfi%d' % i) for i in range(n)]
    mefv = [H.real('mef%d' % i) for i in range(n)]
    if B.kind == 'model':
        for v in rfi + mefv:
            if not (v > 0):
                raise Reject()
        for i in range(n - 1):
            if not (rfi[i] < rfi[i + 1]) or not (mefv[i] < mefv[i + 1]):
                raise Reject()
    else:
        if any(v <= 0 for v in rfi + mefv) or any(rfi[i] >= rfi[i + 1] or mefv[i] >= mefv[i + 1]
                                                  for i in range(n - 1)):
            raise Reject()
    return rfi, mefv


def body_structure(B, I):
    np = B.np
    rfi, mefv = mk_beads(B, 3)
    m, b, af = H.real('m'), H.real('b'), H.real('af')
    r, cap = run_fit(B, rfi, mefv, m, b, af)
    if r[0] != 'ok':
        return False, 'fit raised %s' % r[1], r[2]
    std_crv, beads_model, params, mstr, names = r[1]
    # (c) non-negative autofluorescence: the box handed to the optimiser
    bd = cap.bounds
    if bd is None or len(bd) != 3 or bd[2][0] is None or not (bd[2][0] >= 0):
        return False, 'autofluorescence is not bounded below by zero'
    if bd[0] != (None, None) or bd[1] != (None, None) or bd[2][1] is not None:
        return False, 'generating parameters are not all feasible for the optimiser bounds'
    if B.kind == 'model':
        if not (af >= 0):
            raise Reject()        # the stub honours the bound
    elif not af >= 0:
        raise Reject()
    x, y = H.real('x'), H.real('y')
    sx = std_crv(x)
    # (f) parameter order and formula
    if B.kind == 'model':
        if bool(x > 0):
            H.mark('x>0')
            if not (sx == np.exp(b) * np.exp(m * np.log(x))):
                return False, 'standard curve is not exp(b)*x^m'
            if not (beads_model(x) == sx - af):
                return False, 'bead model is not standard curve minus autofluorescence'
        if not (std_crv(-x) == -sx):
            return False, 'standard curve is not odd'
        if not (std_crv(0.0) == 0) and bool(m > 0):
            return False, 'standard curve is not zero at zero'
        if bool(m > 0) and bool(x < y) and bool(x >= 0):
            if not (sx < std_crv(y)):
                return False, 'standard curve not increasing for positive slope'
    else:
        import math
        if x > 0:
            e = math.exp(b) * x ** m
            if abs(float(sx) - e) > 1e-9 * abs(e):
                return False, 'standard curve is not exp(b)*x^m'
            if abs(float(beads_model(x)) - (e - af)) > 1e-9 * max(abs(e), abs(af), 1e-300):
                return False, 'bead model is not standard curve minus autofluorescence'
        if abs(float(std_crv(-x)) + float(sx)) > 1e-9 * abs(float(sx)):
            return False, 'standard curve is not odd'
        if m > 0 and float(std_crv(0.0)) != 0:
            return False, 'standard curve is not zero at zero'
    if list(names) != ['m', 'b', 'fl_mef_auto']:
        return False, 'parameter names changed'
    return True


def make_structure(env):
    setup_env(env)
    return cond_fn('fit_structure', [], body_structure)


def body_objective(B, I):
    """Objective handed to minimize: >= 0 everywhere, 0 at the generating parameters."""
    np = B.np
    n = I['n']
    m, b, af = H.real('m'), H.real('b'), H.real('af')
    rfi = [H.real('rfi%d' % i) for i in range(n)]
    if B.kind == 'model':
        if not (af >= 0):
            raise Reject()
        for v in rfi:
            if not (v > 0):
                raise Reject()
        mefv = [np.exp(m * np.log(v) + b) - af for v in rfi]
    else:
        import math
        if af < 0 or any(v <= 0 for v in rfi):
            raise Reject()
        mefv = [math.exp(m * math.log(v) + b) - af for v in rfi]
        if any(v < 0 for v in mefv):
            raise Reject()
    r, cap = run_fit(B, rfi, mefv, m, b, af)
    if r[0] != 'ok':
        return False, 'fit raised %s' % r[1], r[2]
    at_truth = cap.fun(np.array([m, b, af]))
    if B.kind == 'model':
        if not (at_truth == 0):
            return False, 'objective is not zero at the generating parameters'
        p = [H.real('p0'), H.real('p1'), H.real('p2')]
        if bool(p[2] >= 0):
            v = cap.fun(np.array(p))
            if not (v >= 0):
                return False, 'objective can be negative'
    else:
        if abs(float(at_truth)) > 1e-12 * max(1.0, n):
            return False, 'objective is not zero at the generating parameters'
    return True


def make_objective(n):
    def make(env):
        setup_env(env, minimal=True)
        return cond_fn('fit_objective', [], body_objective, consts={'n': n})
    return make


def body_args(B, I):
    n1, n2 = ch.pick(I['n1'], 0, 5), ch.pick(I['n2'], 0, 5)
    np = B.np
    rfi = [10.0 * (i + 1) for i in range(n1)]
    mefv = [30.0 * (i + 1) for i in range(n2)]
    r, cap = run_fit(B, rfi, mefv, 1.0, 1.0, 0.0)
    if n1 != n2 or n1 <= 2:
        return (r[0] == 'exc' and r[1] == 'ValueError'), \
            'fewer than three populations or mismatched lengths not refused'
    return r[0] == 'ok', 'valid bead set refused'


def make_args(env):
    setup_env(env)
    return cond_fn('fit_args', [('n1', 'int'), ('n2', 'int')], body_args,
                   pre=['0 <= n1 <= 4 and 0 <= n2 <= 4'])


def body_zero(B, I):
    """std_crv(0) == 0 and oddness at concrete values (IEEE semantics: a formula such as
    x*|x|**(m-1) is 0*inf = nan at 0 for m < 1, which real arithmetic cannot show)."""
    import math
    m = [0.5, 0.9, 1.0, 1.2][ch.pick(I['mi'], 0, 4)] if B.kind == 'model' else \
        [0.5, 0.9, 1.0, 1.2][I['mi']]
    r, cap = run_fit(B, [10.0, 100.0, 1000.0], [30.0, 400.0, 5000.0], m, 2.0, 1.5)
    if r[0] != 'ok':
        return False, 'fit raised %s' % r[1], r[2]
    std_crv = r[1][0]
    np = B.np
    for z in (0.0, -0.0):
        v = std_crv(z)
        v = float(getattr(v, 'v', v))
        if v != 0.0:
            return False, 'standard curve is not zero at zero'
    arr = std_crv(np.array([0.0, 2.0, -2.0]))
    vals = [float(getattr(x, 'v', x)) for x in B.tolist(arr)]
    if vals[0] != 0.0 or vals[1] != -vals[2] or not (vals[1] > 0):
        return False, 'standard curve is not odd / zero at zero on arrays'
    return True


def make_zero(env):
    setup_env(env)
    return cond_fn('fit_zero', [('mi', 'int')], body_zero, pre=['0 <= mi <= 3'])


def conditions(tier):
    mods = ('plot', 'io', 'transform', 'stats', 'mef')
    return [
        Cond('structure', make=make_structure, replay=std_replay(body_structure), timeout=600,
             modules=mods,
             doc='std_crv = sign(x) exp(b)|x|^m: odd, 0 at 0, increasing for m>0; beads_model = '
                 'std_crv - af for x>0; af >= 0 and all generating triples feasible (bounds read '
                 'from the real call); parameter order (m,b,af)'),
        Cond('objective_3', make=make_objective(3), replay=std_replay(body_objective), timeout=600,
             modules=mods, doc='objective = 0 at generating parameters, >= 0 everywhere (3 beads)'),
        Cond('objective_4', make=make_objective(4), replay=std_replay(body_objective), timeout=900,
             modules=mods, doc='same with 4 beads'),
        Cond('zero_concrete', make=make_zero, replay=std_replay(body_zero), timeout=120,
             modules=mods, doc='std_crv(+-0.0) == 0 and oddness evaluated concretely (IEEE) for '
                               'slopes 0.5, 0.9, 1.0, 1.2'),
        Cond('arguments', make=make_args, replay=std_replay(body_args), timeout=120, modules=mods,
             doc='fewer than three populations or unequal lengths -> ValueError'),
    ]
