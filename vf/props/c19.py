"""C19 - histogram bin edges are increasing, complete and centred on channel values."""
import types

from ..driver import Cond
from ..harness import H, Reject, catch, cond_fn
from .. import ch
from ..symnp import scalars
from ..symnp.scalars import RealT, apply_uf
from .common import std_replay, meta_of

INFO = {
    'explanation': 'Bounded symbolic execution (CrossHair + z3 nonlinear real/integer arithmetic) '
                   'of the real source of FCSData.hist_bins (and plot._LogicleTransform for the '
                   'logicle scale).  np.linspace with a symbolic number of points is a lazy '
                   'functional array i -> a + i(b-a)/(k-1), and element-wise arithmetic, 10** and '
                   'the logicle formula compose over it lazily, so the bin count n, the '
                   'resolution R, the range limits and the edge index i are all solver variables: '
                   'statements about "every edge" are proved for a symbolic index.',
    'functions': ['FlowCal.io.FCSData.hist_bins', 'FlowCal.plot._LogicleTransform.__init__',
                  'FlowCal.plot._LogicleTransform.transform_non_affine'],
    'bounds': {'quick': {'R': '2 <= R <= 2^18 (symbolic) for linear/log; logicle: R in {4,8,1000}', 'n': '1 <= n <= 2^19 (symbolic) for linear/log; logicle: n in {1,2,3,8,R}',
                         'ranges': 'symbolic reals lo < hi (hi > 0 for log)', 'channels': 2},
               'thorough': {'logicle': 'R in {4,8,16,1000}, n in {1,2,3,5,8,13,R}, edge index 0..15'}},
    'outside': ['IEEE rounding of linspace (strictness for astronomically many bins)',
                'existence of the logicle parameter p (root finder stubbed: any p > 0)'],
    'stubs': ['scipy.optimize.root returns p = P(W) > 0, a deterministic uninterpreted function'],
    'assumptions': ['10**x strictly increasing and positive, log10 strictly increasing and '
                    'inverse of 10** (instantiated on occurring terms)'],
}

NAMES = ('FL1', 'FL2')


def install(env):
    np = env.np

    def root(fun, x0, args=(), **kw):
        W = args if not isinstance(args, tuple) else args[0]
        if ch.active():
            with ch.NoTracing():
                p = RealT(apply_uf('logicle_p', scalars.lift(W)))
        else:
            p = 10 ** (float(W) / 2.0)
        return types.SimpleNamespace(success=True, x=np.array([p]))
    env.hooks.set('root', root)
    from .c03 import real_float
    env.shadow('io', float=real_float)
    scalars.CONFIG.axioms = dict(scalars.CONFIG.axioms)
    scalars.CONFIG.axioms['logicle_p'] = ('pos',)


def mk(B, I, events=None):
    lo = [H.real('lo0'), H.real('lo1')]
    hi = [H.real('hi0'), H.real('hi1')]
    R = [I['R0'], I['R1']]
    if B.kind == 'model':
        for j in range(2):
            if not (lo[j] < hi[j]):
                raise Reject()
    elif not (lo[0] < hi[0] and lo[1] < hi[1]):
        raise Reject()
    if events is None:
        events = [[H.real('x00'), H.real('x01')], [H.real('x10'), H.real('x11')]]
    meta = dict(channels=list(NAMES), range=[[lo[0], hi[0]], [lo[1], hi[1]]], resolution=R)
    return B.sample(events, 'float64', **meta), lo, hi, R


def edge(B, bins, i):
    return bins[i]


def body_linear(B, I):
    d, lo, hi, R = mk(B, I)
    n, i, c = I['n'], I['i'], ch.pick(I['c'], 0, 2)
    default_n = I['default_n']
    chan = NAMES[c] if I['byname'] else c
    before = [list(r) for r in d.range()]
    r = catch(d.hist_bins, chan, None if default_n else n, 'linear')
    if r[0] != 'ok':
        return False, 'hist_bins(linear) raised %s' % r[1], r[2]
    bins = r[1]
    nn = R[c] if default_n else n
    if len(bins) != nn + 1:
        return False, 'linear: not n+1 edges'
    if not (0 <= i and i < nn):
        raise Reject()
    e0, e1 = edge(B, bins, i), edge(B, bins, i + 1)
    if not (e0 < e1):
        return False, 'linear: edges not strictly increasing'
    if not (edge(B, bins, 0) <= lo[c]) or not (hi[c] <= edge(B, bins, nn)):
        return False, 'linear: edges do not cover the channel range'
    if default_n:
        centre = lo[c] + i * (hi[c] - lo[c]) / (R[c] - 1)
        if not B.close(e0 + e1, 2 * centre, 1e-9):
            return False, 'linear: representable value not at the centre of its bin'
        H.mark('centred')
    after = [list(r_) for r_ in d.range()]
    for j in range(2):
        if not (B.close(after[j][0], before[j][0], 0.0) and B.close(after[j][1], before[j][1], 0.0)):
            return False, 'hist_bins changed the stored range'
    return True


def make_linear(env):
    install(env)
    return cond_fn('bins_linear', [('R0', 'int'), ('R1', 'int'), ('n', 'int'), ('i', 'int'),
                                   ('c', 'int'), ('default_n', 'bool'), ('byname', 'bool')],
                   body_linear, pre=['2 <= R0 <= 262144 and 2 <= R1 <= 262144',
                                     '1 <= n <= 524288', '0 <= i', '0 <= c <= 1'])


def body_log(B, I):
    np = B.np
    d, lo, hi, R = mk(B, I)
    n, i, c = I['n'], I['i'], ch.pick(I['c'], 0, 2)
    default_n = I['default_n']
    if B.kind == 'model':
        if not (hi[c] > 0):
            raise Reject()
    elif not hi[c] > 0:
        raise Reject()
    # documented replacement of a non-positive lower limit (decided first, while the path
    # condition is still linear)
    if bool(lo[c] <= 0):
        H.mark('lower-limit-replaced')
        hl = hi[c] / 1e5
        low = 1.0 if bool(hl >= 1) else hl
    else:
        low = lo[c]
    r = catch(d.hist_bins, c, None if default_n else n, 'log')
    if r[0] != 'ok':
        return False, 'hist_bins(log) raised %s' % r[1], r[2]
    bins = r[1]
    nn = R[c] if default_n else n
    if len(bins) != nn + 1:
        return False, 'log: not n+1 edges'
    if not (0 <= i and i < nn):
        raise Reject()
    e0, e1 = edge(B, bins, i), edge(B, bins, i + 1)
    if not (e0 > 0):
        return False, 'log: edge not positive'
    if not (e0 < e1):
        return False, 'log: edges not strictly increasing'
    # compared in log10 space (log10 is strictly increasing and inverts 10**)
    if not (np.log10(edge(B, bins, 0)) <= np.log10(low)) or \
            not (np.log10(hi[c]) <= np.log10(edge(B, bins, nn))):
        return False, 'log: edges do not cover the channel range'
    if default_n and I['check_centre']:
        l0, l1 = np.log10(low), np.log10(hi[c])
        centre = l0 + i * (l1 - l0) / (R[c] - 1)
        if not B.close(np.log10(e0) + np.log10(e1), 2 * centre, 1e-9):
            return False, 'log: representable value not at the (log) centre of its bin'
        H.mark('centred')
    return True


def make_log(check_centre):
    def make(env):
        install(env)
        if check_centre:
            return cond_fn('bins_log', [('R0', 'int'), ('R1', 'int'), ('i', 'int'), ('c', 'int')],
                           body_log, pre=['2 <= R0 <= 262144 and 2 <= R1 <= 262144', '0 <= i',
                                          '0 <= c <= 1'],
                           consts={'check_centre': True, 'default_n': True, 'n': 1})
        return cond_fn('bins_log', [('R0', 'int'), ('R1', 'int'), ('n', 'int'), ('i', 'int'),
                                    ('c', 'int'), ('default_n', 'bool')], body_log,
                       pre=['2 <= R0 <= 262144 and 2 <= R1 <= 262144', '1 <= n <= 524288',
                            '0 <= i', '0 <= c <= 1'], consts={'check_centre': False})
    return make


def logicle_params(B, d, c, lo, hi, events, kw):
    """Documented parameter rules, written independently of the constructor."""
    np = B.np
    T = kw.get('T', hi[c])
    if 'M' in kw:
        M = kw['M']
    else:
        m2 = (4.5 / np.log10(262144)) * np.log10(T)
        M = 4.5 if bool(m2 <= 4.5) else m2
    if 'W' in kw:
        W = kw['W']
    else:
        W = 0
        col = [events[0][c], events[1][c]]
        neg = [v for v in col if bool(v < 0)]
        if neg:
            r = neg[0]
            for v in neg[1:]:
                if bool(v < r):
                    r = v
            Wi = (M - np.log10(T / abs(r))) / 2
            if bool(Wi > 0):
                W = Wi
    return T, M, W


def biexp(B, T, M, W, p, s):
    return T * 10 ** (-(M - W)) * (10 ** (s - W) - (p * p) * 10 ** (-(s - W) / p) + p * p - 1)


def body_logicle(B, I):
    np = B.np
    events = [[H.real('x00'), H.real('x01')], [H.real('x10'), H.real('x11')]]
    default_n = I['default_n']
    # resolution and bin count from tables (the display grid is then an eager array); the
    # edge index stays symbolic
    deep = I.get('deep', False)
    LR, LN = (LOG_R_DEEP, LOG_N_DEEP) if deep else (LOG_R, LOG_N)
    Rv = LR[ch.pick(I['ri'], 0, len(LR) - 1 if default_n else len(LR))]
    I = dict(I, R0=Rv, R1=Rv)
    d, lo, hi, R = mk(B, I, events)
    c = ch.pick(I['c'], 0, 2)
    n = None if default_n else LN[ch.pick(I['ni'], 0, len(LN))]
    nn = R[c] if default_n else n
    i = ch.pick(I['i'], 0, 16 if deep else 8)
    if not (0 <= i and i < nn):
        raise Reject()               # edge index beyond the bin count: nothing to check
    kw = {}
    if I['ovT']:
        kw['T'] = H.real('oT')
    if I['ovM']:
        kw['M'] = H.real('oM')
    if I['ovW']:
        kw['W'] = 0 if I['W0'] else H.real('oW')
    if B.kind == 'model':
        if not (hi[c] > 0):
            raise Reject()
        if 'T' in kw and not (kw['T'] > 0):
            raise Reject()
        if 'M' in kw and not (kw['M'] > 0):
            raise Reject()
        if 'W' in kw and not (kw['W'] >= 0):
            raise Reject()
    else:
        if not (hi[c] > 0 and kw.get('T', 1) > 0 and kw.get('M', 1) > 0 and kw.get('W', 0) >= 0):
            raise Reject()
    LT = B.FC.plot._LogicleTransform
    orig_tna = LT.transform_non_affine
    seen_s = []

    def tna(self, s_):
        seen_s.append(s_)
        return orig_tna(self, s_)
    LT.transform_non_affine = tna
    try:
        r = catch(d.hist_bins, c, None if default_n else n, 'logicle', **kw)
    finally:
        LT.transform_non_affine = orig_tna
    if r[0] != 'ok':
        return False, 'hist_bins(logicle) raised %s' % r[1], r[2]
    bins = r[1]
    if len(bins) != nn + 1:
        return False, 'logicle: not n+1 edges'
    T, M, W = logicle_params(B, d, c, lo, hi, events, kw)
    if B.kind == 'model':
        with ch.NoTracing():
            p = RealT(apply_uf('logicle_p', scalars.lift(W)))
    else:
        t = B.FC.plot._LogicleTransform(T=float(T), M=float(M), W=float(W))
        p = t._p
    delta = M / (R[c] - 1)
    ga, gb = -delta / 2., M + delta / 2.
    for k in (i, i + 1):
        # uniform display grid from -d/2 to M+d/2 with n+1 points (float constants are folded
        # in the same order as np.linspace does, IEEE rounding being outside the claim)
        s = gb if k == nn else ga + k * ((gb - ga) / nn)
        exp = biexp(B, T, M, W, p, s)
        got_e = edge(B, bins, k)
        if not B.close(got_e, exp, 1e-7):
            txt = ''
            if B.kind == 'model':
                import z3
                with ch.NoTracing():
                    txt = 'got - expected = ' + str(z3.simplify(got_e.e - exp.e, som=True))[:2500]
            return False, 'logicle: edge is not the image of the uniform display grid', txt
    if I['check_mono']:
        # edges = transform(display grid) (checked above); the transform is strictly increasing
        # for every p > 0 (C18, condition formula); so edges increase iff the grid does:
        if len(seen_s) != 1:
            return False, 'logicle: transform not applied exactly once to the display grid'
        g = seen_s[0]
        if B.kind == 'model':
            if not (g[i] < g[i + 1]):
                return False, 'logicle: edges not strictly increasing'
        elif not (edge(B, bins, i) < edge(B, bins, i + 1)):
            return False, 'logicle: edges not strictly increasing'
    return True


LOG_R = [4, 8, 1000]
LOG_N = [1, 2, 3, 8]
LOG_R_DEEP = [4, 8, 16, 1000]         # thorough tier
LOG_N_DEEP = [1, 2, 3, 5, 8, 13]


def make_logicle(check_mono, ov=None, c=None, dn=None, deep=False):
    def make(env):
        install(env)
        scalars.CONFIG.axioms = {'pow10': (), 'log10': (), 'logicle_p': ()}
        params = [('ri', 'int'), ('ni', 'int'), ('i', 'int')]
        pre = ['0 <= ri <= 3', '0 <= ni <= 5', '0 <= i <= 15'] if deep else \
            ['0 <= ri <= 2', '0 <= ni <= 3', '0 <= i <= 7']
        consts = {'check_mono': check_mono, 'deep': deep}
        if c is None:
            params += [('c', 'int'), ('default_n', 'bool')]
            pre.append('0 <= c <= 1')
        else:
            # same claim split into one job per (channel, default bin count or not)
            consts.update({'c': c, 'default_n': dn})
        if check_mono:
            consts.update({'ovT': True, 'ovM': True, 'ovW': True, 'W0': False})
        else:
            consts.update({'ovT': bool(ov & 4), 'ovM': bool(ov & 2), 'ovW': bool(ov & 1)})
            params += [('W0', 'bool')] if ov & 1 else []
            if not ov & 1:
                consts['W0'] = False
        return cond_fn('bins_logicle', params, body_logicle, pre=pre, consts=consts)
    return make


def body_lists(B, I):
    """Several channels == per-channel answers in order; nbins/scale lists broadcast; unknown
    scale refused."""
    d, lo, hi, R = mk(B, I, [[1.0, 2.0], [3.0, 4.0]] if I.get('logicle') else None)
    SC = ['linear', 'log', 'bogus', 'Linear', None, 'logicle']
    if I.get('logicle'):
        s0 = s1 = 'logicle'
    else:
        s0, s1 = SC[ch.pick(I['s0'], 0, 5)], SC[ch.pick(I['s1'], 0, 5)]
    n0, n1 = (I['n0'], I['n1']) if I.get('logicle') else (ch.pick(I['n0'], 1, 3), ch.pick(I['n1'], 1, 3))
    order = [[0, 1], [1, 0], [NAMES[1], 0]][ch.pick(I['order'], 0, 3)]
    pos = [0 if o in (0, NAMES[0]) else 1 for o in order]
    if B.kind == 'model':
        if not (hi[0] > 0) or not (hi[1] > 0) or not (lo[0] > 0) or not (lo[1] > 0):
            raise Reject()
    elif not (lo[0] > 0 and lo[1] > 0):
        raise Reject()
    form = ch.pick(I['form'], 0, 3)
    if form == 0:
        nb, sc = [n0, n1], [s0, s1]
    elif form == 1:
        nb, sc = n0, [s0, s1]
        n1 = n0
    else:
        nb, sc = [n0, n1], s0
        s1 = s0
    r = catch(d.hist_bins, order, nb, sc)
    bad = [s for s in (s0, s1) if s not in ('linear', 'log', 'logicle')]
    if bad:
        return (r[0] == 'exc' and r[1] == 'ValueError'), 'unknown scale not refused'
    if r[0] != 'ok':
        return False, 'hist_bins(list) raised %s' % r[1], r[2]
    res = r[1]
    if not isinstance(res, list) or len(res) != 2:
        return False, 'list of channels did not give a list of edge arrays'
    for k, (p_, n_, s_) in enumerate(zip(pos, (n0, n1), (s0, s1))):
        one = catch(d.hist_bins, p_, n_, s_)
        if one[0] != 'ok':
            return False, 'single-channel call raised %s' % one[1]
        a, b = B.tolist(res[k]), B.tolist(one[1])
        if len(a) != len(b) or any(not B.close(x, y, 0.0) for x, y in zip(a, b)):
            return False, 'list of channels differs from the per-channel answers'
    return True


def make_lists(env):
    install(env)
    return cond_fn('bins_lists', [('s0', 'int'), ('s1', 'int'), ('n0', 'int'), ('n1', 'int'),
                                  ('order', 'int'), ('form', 'int')], body_lists,
                   pre=['0 <= s0 <= 4 and 0 <= s1 <= 4', '1 <= n0 <= 2 and 1 <= n1 <= 2',
                        '0 <= order <= 2', '0 <= form <= 2'], consts={'R0': 8, 'R1': 8})


def make_lists_logicle(env):
    install(env)
    scalars.CONFIG.axioms = {'pow10': (), 'log10': (), 'logicle_p': ()}
    return cond_fn('bins_lists_logicle', [('order', 'int'), ('form', 'int')], body_lists,
                   pre=['0 <= order <= 2', '0 <= form <= 2'],
                   consts={'R0': 8, 'R1': 8, 'logicle': True, 'n0': 2, 'n1': 2, 's0': 5, 's1': 5})


def conditions(tier):
    mods = ('plot', 'io')
    deep = tier != 'quick'
    return [
        Cond('linear', make=make_linear, replay=std_replay(body_linear), timeout=300, modules=mods,
             doc='n+1 edges; e(i) < e(i+1) for a symbolic index; e(0) <= lo, hi <= e(n); default '
                 'n=R: e(i)+e(i+1) = 2(lo + i(hi-lo)/(R-1)); stored range unchanged'),
        Cond('log', make=make_log(False), replay=std_replay(body_log), timeout=600, modules=mods,
             doc='log scale: n+1 positive, strictly increasing edges covering the range after the '
                 'documented replacement of a non-positive lower limit by min(1, hi/1e5)'),
        Cond('log_centred', make=make_log(True), replay=std_replay(body_log), timeout=600,
             modules=mods, doc='default n=R: log10 e(i) + log10 e(i+1) = 2(l0 + i(l1-l0)/(R-1))'),
    ] + [
        Cond('logicle_grid_ov%d%s' % (ov, '' if c is None else '_c%d_%s' % (
            c, 'defaultn' if dn else 'givenn')), make=make_logicle(False, ov, c, dn, deep),
             replay=std_replay(body_logicle), timeout=2400 if deep else 900, modules=mods,
             doc='logicle edges = biexponential image of the uniform display grid from -d/2 to '
                 'M+d/2 with T, M, W from the documented rules or the overrides (T,M,W '
                 'overridden: %s)' % format(ov, '03b'))
        for ov in range(8)
        # W derived from the events multiplies the paths: one job per channel and bin-count form
        for (c, dn) in ([(None, None)] if ov & 1 else [(0, False), (0, True), (1, False),
                                                        (1, True)])
    ] + [
        Cond('logicle_increasing', make=make_logicle(True, deep=deep),
             replay=std_replay(body_logicle), timeout=2400 if deep else 900, modules=mods, doc='logicle edges strictly increasing'),
        Cond('lists_logicle', make=make_lists_logicle, replay=std_replay(body_lists), timeout=600,
             modules=mods, doc='logicle scale, two channels of equal resolution and different '
                               'ranges: list == per-channel answers'),
        Cond('lists', make=make_lists, replay=std_replay(body_lists), timeout=600, modules=mods,
             doc='list of channels == per-channel answers in order; per-channel nbins/scale '
                 'lists broadcast; unknown scale -> ValueError'),
    ]
