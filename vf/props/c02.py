"""C02 - bead calibration workflow (the part that is decidable: everything but the clusterer,
the optimiser and numeric accuracy)."""
import types

from ..driver import Cond
from ..harness import H, Reject, catch, cond_fn
from .. import ch
from ..symnp import scalars
from ..symnp.scalars import TermT, RealT
from .common import std_replay
from .c03 import real_float

INFO = {
    'explanation': 'PARTIAL.  Grouping events by generating subpopulation and the 10% accuracy '
                   'are properties of scikit-learn\'s EM iteration and SciPy\'s optimiser on '
                   'floating point (compiled, iterative): not decidable by bounded symbolic '
                   'execution and NOT claimed; neither is seed reproducibility (np.random).  '
                   'Decided: mef.get_transform_fxn and mef.selection_std are executed '
                   'symbolically with the clusterer replaced by a stub returning ANY relabelling '
                   'of the true partition (label permutation symbolic), the fitting function a '
                   'free term constructor, the statistic the real stats.median/mean; per-'
                   'population brightness values are solver reals (their order is symbolic), '
                   'which manufacturer values are unknown (None) is symbolic, the selection '
                   'thresholds are solver reals, the event order is one of several permutations.',
    'functions': ['FlowCal.mef.get_transform_fxn', 'FlowCal.mef.selection_std',
                  'FlowCal.stats.median/mean/std', 'FlowCal.transform.to_mef (via the returned '
                  'partial)'],
    'bounds': {'quick': {'populations': 3, 'events': 6, 'channels': '1-2 calibrated',
                         'configurations': '3 (event order, label names, statistic) for 1 channel '
                                           'x all 5 unknown-value patterns x default/explicit '
                                           'thresholds; 3 for 2 channels (one unknown-value '
                                           'pattern each); every brightness order'},
               'thorough': {'configurations': '1 channel: 7 label namings x 2 statistics (event '
                                              'order tied to the naming) x 5 unknown-value '
                                              'patterns x default/explicit thresholds; 2 channels: '
                                              '7 configurations; every brightness order'}},
    'outside': ['populations within 0.05 of a selection threshold', 'clustering quality (GMM)', 'the 10% conversion accuracy', 'reproducibility for a '
                'fixed random seed', 'log/logicle selection scales (linear executed)'],
    'stubs': ['clustering_fxn: any relabelling of the ground-truth partition',
              'fitting_fxn: free term constructor fit(rfi, mef)'],
    'assumptions': ['populations have zero within-population spread (statistic = brightness)'],
}

PERMS = [[0, 1, 2, 3, 4, 5], [5, 4, 3, 2, 1, 0], [0, 2, 4, 1, 3, 5], [3, 0, 5, 1, 4, 2]]
LABELS = [[0, 1, 2], [0, 2, 1], [1, 0, 2], [1, 2, 0], [2, 0, 1], [2, 1, 0], [7, 3, 5]]


def body_workflow(B, I):
    np = B.np
    K = 3
    b = [H.real('b%d' % k) for k in range(K)]
    low, high = H.real('low'), H.real('high')
    use_default = I['use_default']
    if use_default:
        # thresholds derived from the channel range [rlo, rhi]: 1.5% and 98.5% of the span
        rlo, rhi = low, high
        low = rlo + 0.015 * (rhi - rlo)
        high = rlo + 0.985 * (rhi - rlo)
    if B.kind == 'model':
        for k in range(K):
            if not (b[k] > 0):
                raise Reject()
        if bool(b[0] == b[1]) or bool(b[0] == b[2]) or bool(b[1] == b[2]):
            raise Reject()
        if not (low < high):
            raise Reject()
        if I.get('minb') is not None:
            # job split: this job covers the brightness orders in which population `minb` is
            # the dimmest (the jobs for minb = 0, 1, 2 together cover every order)
            for k in range(K):
                if k != I['minb'] and not (b[I['minb']] < b[k]):
                    raise Reject()
        # keep populations a margin away from the selection thresholds, so that a
        # counterexample replays identically in floating point
        for k in range(K):
            for scale_ in ((1.0, 3.0) if I['two'] else (1.0,)):
                for thr in (low, high):
                    dlt = b[k] * scale_ - thr
                    if bool(dlt > -0.05) and bool(dlt < 0.05):
                        raise Reject()
    else:
        if not (all(v > 0 for v in b) and len(set(b)) == 3 and low < high):
            raise Reject()
    two = I['two']
    perm = PERMS[ch.pick(I['pi'], 0, len(PERMS))]
    lab = LABELS[ch.pick(I['li'], 0, len(LABELS))]
    truth = [0, 0, 1, 1, 2, 2]                       # generating population of event e
    rows = [[1.0, b[truth[e]], 3.0 * b[truth[e]]] for e in range(6)]
    rows = [rows[e] for e in perm]
    truth_p = [truth[e] for e in perm]
    if use_default:
        if two:
            raise Reject()
        d = B.sample(rows, 'float64', channels=['FSC', 'FL1', 'FL2'],
                     range=[[0.0, 1023.0], [rlo, rhi], [0.0, 1e9]])
    else:
        d = B.sample(rows, 'float64', channels=['FSC', 'FL1', 'FL2'],
                     range=[[0.0, 1023.0], [0.0, 1e9], [0.0, 1e9]])
    unknown = [[False, False, False], [True, False, False], [False, True, False],
               [False, False, True], [True, False, True]][ch.pick(I['ui'], 0, 5)]
    mv1 = [None if unknown[k] else 100.0 * (k + 1) for k in range(K)]
    mv2 = [float('nan') if unknown[(k + 1) % 3] else 7.0 * (k + 1) for k in range(K)]
    mef_channels = ['FL1', 'FL2'] if two else 'FL1'
    mef_values = [mv1, mv2] if two else mv1
    labels = [lab[t] for t in truth_p]
    fits = []

    def fit(rfi, mefv, **kw):
        fits.append((tuple(B.tolist(rfi)), tuple(B.tolist(mefv))))
        tag = len(fits) - 1
        crv = lambda x, tag=tag: ('curve%d' % tag, x)
        return (crv, None, ('params', tag), 'model', ['m', 'b'])
    sel_params = dict(scale='linear') if use_default else dict(low=low, high=high,
                                                               scale='linear')
    r = catch(B.FC.mef.get_transform_fxn, d, mef_values, mef_channels,
              clustering_fxn=lambda data, n, **kw: list(labels),
              selection_params=sel_params, fitting_fxn=fit,
              statistic_fxn=B.FC.stats.mean if I['usemean'] else B.FC.stats.median,
              full_output=True)
    if r[0] != 'ok':
        return False, 'get_transform_fxn raised %s' % r[1], r[2]
    out = r[1]
    # populations in order of increasing brightness
    order = sorted(range(K), key=_key(b))
    chans = ['FL1', 'FL2'] if two else ['FL1']
    if len(fits) != len(chans):
        return False, 'not one fit per calibrated channel'
    for ci, c in enumerate(chans):
        scale = 1.0 if c == 'FL1' else 3.0
        mv = mv1 if c == 'FL1' else mv2
        exp_rfi, exp_mef = [], []
        for pos, k in enumerate(order):
            val = mv[pos]
            bk = b[k] * scale
            # selection rule of the documented selection function (std floor 0.005)
            sel = bool(bk - 2.5 * 0.005 > low) and bool(bk + 2.5 * 0.005 < high)
            known = val is not None and val == val
            if sel and known:
                exp_rfi.append(bk)
                exp_mef.append(val)
        got_rfi, got_mef = fits[ci]
        if len(got_rfi) != len(got_mef):
            return False, 'selected RFI and MEF lists have different lengths'
        if len(got_rfi) != len(exp_rfi):
            return False, 'unknown or near-limit populations took part in the fit (or others ' \
                          'were dropped)'
        for g, e in zip(got_rfi, exp_rfi):
            if not B.close(g, e):
                return False, 'fit did not receive the true population statistics in order of ' \
                              'brightness'
        for g, e in zip(got_mef, exp_mef):
            if not B.close(g, e, 0.0):
                return False, 'a population was paired with another population\'s MEF value'
        sv = B.tolist(out.statistic['values'][ci])
        if len(sv) != K:
            return False, 'not one statistic per subpopulation'
        if len(B.tolist(out.selection['rfi'][ci])) != len(B.tolist(out.selection['mef'][ci])):
            return False, 'reported selected RFI and MEF lists have different lengths'
    if list(out.clustering['labels']) != labels or len(labels) != 6:
        return False, 'not one label per event'
    if list(out.mef_channels) != chans:
        return False, 'reported channels differ'
    tf = out.transform_fxn
    if getattr(tf.func, '__name__', '') != 'to_mef' or list(tf.keywords['sc_channels']) != chans or \
            len(tf.keywords['sc_list']) != len(chans):
        return False, 'transformation is not to_mef bound to the fitted curves and their channels'
    for ci in range(len(chans)):
        if tf.keywords['sc_list'][ci](5.0) != ('curve%d' % ci, 5.0):
            return False, 'standard curves not bound to their channels in order'
    H.mark('fits%d' % len(fits))
    return True


def _key(b):
    def k(i):
        return _Ord(b[i])
    return k


class _Ord(object):
    def __init__(self, v):
        self.v = v

    def __lt__(self, o):
        return bool(self.v < o.v)


def make_workflow(two, usemean, pi, li, ui=None, ud=None, uis=None, minb=None):
    def make(env):
        env.shadow('transform', float=real_float)
        from .c12 import install_scipy
        install_scipy(env)
        scalars.CONFIG.axioms = {'sqrt': ('nonneg', 'sq'), 'exp': (), 'log': ()}
        if ui is not None:
            return cond_fn('bead_workflow', [], body_workflow,
                           consts={'two': two, 'usemean': usemean, 'pi': pi, 'li': li, 'ui': ui,
                                   'use_default': False, 'minb': minb})
        if ud is not None:
            # same claim split into jobs: default/explicit thresholds x subsets of the
            # unknown-value patterns
            return cond_fn('bead_workflow', [('ui', 'int')], body_workflow,
                           pre=['ui in %r' % (tuple(uis),)],
                           consts={'two': two, 'usemean': usemean, 'pi': pi, 'li': li,
                                   'use_default': ud})
        return cond_fn('bead_workflow', [('ui', 'int'), ('use_default', 'bool')], body_workflow,
                       pre=['0 <= ui <= 4'],
                       consts={'two': two, 'usemean': usemean, 'pi': pi, 'li': li})
    return make


def conditions(tier):
    q = tier == 'quick'
    mods = ('plot', 'io', 'transform', 'stats', 'gate', 'mef')
    if q:
        cfgs = [(False, um, pi, li, None, ud, uis)
                for (um, pi, li) in ((False, 1, 3), (False, 3, 6), (True, 2, 1))
                for ud in (False, True) for uis in ((0, 1, 2), (3, 4))]
        cfgs += [(True, False, pi, li, ui, None, mb)
                 for (pi, li, ui) in ((1, 4, 0), (3, 2, 2), (2, 5, 4)) for mb in (0, 1, 2)]
    else:
        # sized for about half an hour on 16 cores: every label naming with both statistics
        # (event order tied to the naming), every unknown-value pattern, both threshold forms
        cfgs = [(False, um, li % len(PERMS), li, None, ud, uis) for um in (False, True)
                for li in range(len(LABELS))
                for ud in (False, True) for uis in ((0, 1, 2), (3, 4))]
        cfgs += [(True, bool(li % 2), (li + 1) % len(PERMS), li, li % 5, None, mb)
                 for li in range(len(LABELS)) for mb in (0, 1, 2)]
    return [Cond('workflow_%s_%s_p%d_l%d%s%s' % ('2ch' if two else '1ch',
                                                 'mean' if um else 'median', pi, li,
                                                 '' if ui is None else '_u%d' % ui,
                                                 ('_dim%d' % uis) if two else '_%s_u%s' % (
                                                     'dflt' if ud else 'expl',
                                                     ''.join(map(str, uis)))),
                 make=make_workflow(two, um, pi, li, ui, ud, None if two else uis,
                                    uis if two else None),
                 replay=std_replay(body_workflow),
                 timeout=900, modules=mods,
                 doc='3 populations with symbolic brightness order, event order %s, label names '
                     '%s, symbolic unknown values and selection thresholds, %d channel(s), '
                     'statistic %s: values assigned in order of brightness, unknown/near-limit '
                     'populations excluded, fit receives the true statistics, consistent '
                     'intermediate results, transformation = to_mef bound to curves and channels'
                     % (PERMS[pi], LABELS[li], 2 if two else 1, 'mean' if um else 'median'))
            for (two, um, pi, li, ui, ud, uis) in cfgs]
