"""C03 - RFI conversion applies exactly the amplifier law of each selected channel."""
from ..driver import Cond
from ..harness import H, Reject, catch, cond_fn
from .. import ch
from ..symnp.scalars import RealT
from .common import meta_of, is_sample, std_replay

INFO = {
    'explanation': 'Bounded symbolic execution (CrossHair + z3 nonlinear real arithmetic) of the '
                   'real source of FlowCal.transform.to_rfi on the symnp model.  Events, a0, a1, '
                   'resolution and gain of every channel are solver reals (10**x is an '
                   'uninterpreted strictly increasing function), presence of gain, explicit '
                   'override vs taken-from-sample for each of the three settings, the channel '
                   'selection form and the log/linear branch are symbolic.  Oracle: the '
                   'mathematical law a1*10^(a0*x/r) or x/g over the reals.',
    'functions': ['FlowCal.transform.to_rfi', 'FlowCal.io.FCSData._name_to_index',
                  'FlowCal.io.FCSData.amplification_type/amplifier_gain/resolution',
                  'FlowCal.io.FCSData.__array_finalize__'],
    'bounds': {'quick': {'shape': '2 events x 3 channels', 'channels': '8 selection forms (all, '
                         'int, name, lists of 1-3 mixing names/positions in any order)'},
               'thorough': {'shape': '2 x 3, all 13 forms'}},
    'outside': ['IEEE rounding of the law (C07 treats exactness of ranges)', 'duplicated channels',
                'negative channel positions'],
    'stubs': ['float() inside transform.py lifts a symbolic integer resolution to a real'],
    'assumptions': ['10**x is a function (congruence only)', 'resolutions drawn from a table of positive values (powers of two and not)'],
}

NAMES = ('FSC', 'SSC', 'FL1')
# (channels argument builder, selected positions)
FORMS = [
    (lambda n: None, [0, 1, 2]),
    (lambda n: 1, [1]),
    (lambda n: n[2], [2]),
    (lambda n: [0, 2], [0, 2]),
    (lambda n: [n[2], 0], [2, 0]),
    (lambda n: [2, n[1], 0], [2, 1, 0]),
    (lambda n: [n[1]], [1]),
    (lambda n: (1, 2), [1, 2]),
    (lambda n: [0], [0]),
    (lambda n: [1, 0], [1, 0]),
    (lambda n: [n[0], n[1], n[2]], [0, 1, 2]),
    (lambda n: 0, [0]),
    (lambda n: n[0], [0]),
]


def real_float(x=0.0):
    if type(x) is RealT:
        return x
    if ch.var_of(x) is not None:
        return RealT.of(x)
    if hasattr(x, '_symnp_scalar'):
        return real_float(x.v)
    return float(x)


def setup(B, I, as_sample):
    D = 3
    xs = [[H.real('x%d%d' % (i, j)) for j in range(D)] for i in range(2)]
    a0 = [H.real('a0_%d' % j) for j in range(D)]
    a1 = [H.real('a1_%d' % j) for j in range(D)]
    RT = [(1024, 256, 1000), (1000, 1024, 4096), (262144, 1000, 1024)]
    rsel = RT[ch.pick(I['ri'], 0, 3)] if B.kind == 'model' else RT[I['ri']]
    r = [rsel[j] for j in range(D)]
    g = [H.real('g%d' % j) for j in range(D)]
    lo = [H.real('lo%d' % j) for j in range(D)]
    hi = [H.real('hi%d' % j) for j in range(D)]
    if B.kind == 'model':
        for j in range(D):
            if not (g[j] > 0):
                raise Reject()
    else:
        for j in range(D):
            if not g[j] > 0:
                return None
    gp = I['gp']
    meta = dict(channels=list(NAMES),
                amplification_type=[(a0[j], a1[j]) for j in range(D)],
                amplifier_gain=[g[j] if gp[j] else None for j in range(D)],
                resolution=[r[j] for j in range(D)],
                range=[[lo[j], hi[j]] for j in range(D)],
                detector_voltage=[400.0, 500.0, 600.0], channel_labels=['a', 'b', 'c'])
    data = B.sample(xs, 'float64', **meta) if as_sample else B.arr(xs, 'float64')
    return data, xs, a0, a1, r, g, lo, hi, meta


def law(B, x, a0, a1, r, g, gpres):
    if bool(a0 == 0):
        H.mark('linear')
        return x / (g if gpres else 1.0)
    H.mark('log')
    return a1 * 10 ** (a0 * x / r)


def body_law(B, I):
    as_sample = I['as_sample']
    s = setup(B, I, as_sample)
    if s is None:
        return True
    data, xs, a0, a1, r, g, lo, hi, meta = s
    chan_fn, cols = FORMS[I['form']]
    if not as_sample and any(isinstance(c, str) for c in _flat(chan_fn(NAMES))):
        raise Reject()
    chans = chan_fn(NAMES)
    before = meta_of(data) if as_sample else None
    # overrides: each setting independently explicit or taken from the sample
    ov_at, ov_ag, ov_r = I['ov_at'], I['ov_ag'], I['ov_r']
    if not as_sample:
        ov_at = True
    o_a0 = [H.real('oa0_%d' % j) for j in range(3)]
    o_a1 = [H.real('oa1_%d' % j) for j in range(3)]
    o_r = [512, 2048, 3000]
    o_g = [H.real('og%d' % j) for j in range(3)]
    if B.kind == 'model':
        for v in o_g:
            if not (v > 0):
                raise Reject()
    elif any(not v > 0 for v in o_g):
        return True
    kw = {}
    scalar_form = not isinstance(chans, (list, tuple)) and chans is not None
    if ov_at:
        kw['amplification_type'] = (o_a0[cols[0]], o_a1[cols[0]]) if scalar_form else \
            [(o_a0[c], o_a1[c]) for c in cols]
    if ov_ag:
        kw['amplifier_gain'] = o_g[cols[0]] if scalar_form else [o_g[c] for c in cols]
    if ov_r:
        kw['resolution'] = o_r[cols[0]] if scalar_form else [o_r[c] for c in cols]
    res = catch(B.FC.transform.to_rfi, data, chans, **kw)
    # effective settings
    eff = {}
    need_r_missing = False
    for c in cols:
        ea0, ea1 = (o_a0[c], o_a1[c]) if ov_at else (a0[c], a1[c])
        if ov_ag:
            eg, egp = o_g[c], True
        elif as_sample:
            eg, egp = g[c], I['gp'][c]
        else:
            eg, egp = None, False
        if ov_r:
            er = o_r[c]
        elif as_sample:
            er = r[c]
        else:
            er = None
        eff[c] = (ea0, ea1, er, eg, egp)
    if res[0] != 'ok':
        # a plain array without resolution for a log channel must be refused
        if not as_sample and not ov_r and res[1] == 'ValueError':
            for c in cols:
                if bool(eff[c][0] != 0):
                    return True
        return False, 'to_rfi: unexpected %s' % (res[1],), res[2]
    out = res[1]
    rows = B.tolist(out)
    for i in range(2):
        for j in range(3):
            if j in cols:
                ea0, ea1, er, eg, egp = eff[j]
                if er is None and bool(ea0 != 0):
                    return False, 'to_rfi: log channel converted without a resolution'
                exp = law(B, xs[i][j], ea0, ea1, er, eg, egp)
                if not B.close(rows[i][j], exp):
                    return False, 'to_rfi: converted value differs from the amplifier law'
            else:
                if not B.close(rows[i][j], xs[i][j], 0.0):
                    return False, 'to_rfi: unselected channel changed'
    if as_sample:
        if not is_sample(B, out):
            return False, 'to_rfi: result is not a sample'
        after = meta_of(out)
        for f in before:
            if f != '_range' and after[f] != before[f]:
                return False, 'to_rfi: non-range metadata changed (%s)' % f
        if meta_of(data) != before:
            return False, 'to_rfi: input sample changed'
        rng = out.range()
        for j in range(3):
            if j in cols:
                ea0, ea1, er, eg, egp = eff[j]
                e0 = law(B, lo[j], ea0, ea1, er, eg, egp)
                e1 = law(B, hi[j], ea0, ea1, er, eg, egp)
                if not (B.close(rng[j][0], e0) and B.close(rng[j][1], e1)):
                    return False, 'to_rfi: range of converted channel is not the converted limits'
            elif not (B.close(rng[j][0], lo[j], 0.0) and B.close(rng[j][1], hi[j], 0.0)):
                return False, 'to_rfi: range of unconverted channel changed'
    return True


def _flat(c):
    if c is None:
        return []
    if isinstance(c, (list, tuple)):
        return list(c)
    return [c]


def law_axioms(env):
    from ..symnp import scalars
    # the law is decided by congruence; order/positivity axioms are not needed and only
    # burden the nonlinear solver
    scalars.CONFIG.axioms = {'pow10': ()}
    env.shadow('transform', float=real_float)


def make_law(form, as_sample, ov):
    def make(env):
        law_axioms(env)
        return cond_fn('rfi_law', [('gp', 'Tuple[bool, bool, bool]'), ('ri', 'int')], body_law,
                       pre=['0 <= ri <= 2'],
                       consts={'form': form, 'as_sample': as_sample, 'ov_at': bool(ov & 4),
                               'ov_ag': bool(ov & 2), 'ov_r': bool(ov & 1)})
    return make


def body_batch(B, I):
    """One call == one channel at a time in the given order == by name == by position."""
    s = setup(B, I, True)
    if s is None:
        return True
    data, xs, a0, a1, r, g, lo, hi, meta = s
    order = [[0, 1, 2], [0, 2, 1], [1, 0, 2], [1, 2, 0], [2, 0, 1], [2, 1, 0]][ch.pick(I['perm'], 0, 6)]
    k = ch.pick(I['k'], 1, 4)
    order = order[:k]
    to_rfi = B.FC.transform.to_rfi
    batch = catch(to_rfi, data, list(order))
    if batch[0] != 'ok':
        return False, 'to_rfi(batch): unexpected %s' % batch[1], batch[2]
    seq = data
    for c in reversed(order):
        key = NAMES[c] if I['byname'] else c
        r1 = catch(to_rfi, seq, key)
        if r1[0] != 'ok':
            return False, 'to_rfi(sequential): unexpected %s' % r1[1], r1[2]
        seq = r1[1]
    a, b = B.tolist(batch[1]), B.tolist(seq)
    for i in range(2):
        for j in range(3):
            if not B.close(a[i][j], b[i][j]):
                return False, 'to_rfi: batch and one-at-a-time conversions differ'
    ra, rb = batch[1].range(), seq.range()
    for j in range(3):
        if not (B.close(ra[j][0], rb[j][0]) and B.close(ra[j][1], rb[j][1])):
            return False, 'to_rfi: batch and one-at-a-time ranges differ'
    return True


def make_batch(perm):
    def make(env):
        law_axioms(env)
        return cond_fn('rfi_batch', [('gp', 'Tuple[bool, bool, bool]'), ('k', 'int'),
                                     ('byname', 'bool')], body_batch,
                       pre=['1 <= k <= 3', 'gp[0] == gp[1] == gp[2]'],
                       consts={'ri': 0, 'perm': perm})
    return make


def body_lengths(B, I):
    """Inconsistent argument lengths are refused."""
    nch = ch.pick(I['nch'], 1, 4)
    which = ch.pick(I['which'], 0, 3)
    n = ch.pick(I['n'], 0, 5)
    data = B.arr([[1.0, 2.0, 3.0], [4.0, 5.0, 6.0]], 'float64')
    chans = [0, 1, 2][:nch]
    at = [(0.0, 0.0)] * nch
    ag = [2.0] * nch
    rs = [1024] * nch
    if which == 0:
        at = [(0.0, 0.0)] * n
    elif which == 1:
        ag = [2.0] * n
    else:
        rs = [1024] * n
    res = catch(B.FC.transform.to_rfi, data, chans, amplification_type=at, amplifier_gain=ag,
                resolution=rs)
    if n != nch:
        return (res[0] == 'exc' and res[1] == 'ValueError'), \
            'to_rfi: inconsistent argument lengths accepted'
    return res[0] == 'ok', 'to_rfi: consistent arguments refused'


def make_lengths(env):
    return cond_fn('rfi_lengths', [('nch', 'int'), ('which', 'int'), ('n', 'int')], body_lengths,
                   pre=['1 <= nch <= 3', '0 <= which <= 2', '0 <= n <= 4'])


def conditions(tier):
    q = tier == 'quick'
    forms = [0, 1, 2, 3, 4, 5, 6, 7] if q else list(range(len(FORMS)))
    mods = ('plot', 'io', 'transform')
    cs = []
    for f in forms:
        for ov in range(8):
            cs.append(Cond('law_sample_form%d_ov%d' % (f, ov), make=make_law(f, True, ov),
                           replay=std_replay(body_law), timeout=400 if q else 1200, modules=mods,
                           doc='sample, channel form %d, overrides(at,gain,res)=%s: converted '
                               'cells == a1*10^(a0 x/r) or x/g with the channel\'s own or '
                               'overridden settings; other cells, shape, order, non-range '
                               'metadata unchanged' % (f, format(ov, '03b'))))
    for f in (0, 1, 3, 8, 9) if q else (0, 1, 3, 7, 8, 9, 11):
        for ov in (4, 5, 6, 7):
            cs.append(Cond('law_array_form%d_ov%d' % (f, ov), make=make_law(f, False, ov),
                           replay=std_replay(body_law), timeout=400, modules=mods,
                           doc='plain array, positional channel form %d, explicit settings' % f))
    for perm in range(6):
        cs.append(Cond('batch_vs_sequential_p%d' % perm, make=make_batch(perm),
                       replay=std_replay(body_batch), timeout=600, modules=mods,
                       doc='several channels in one call (prefixes of channel order #%d) == one '
                           'at a time in reverse order, by name or position' % perm))
    cs.append(Cond('argument_lengths', make=make_lengths, replay=std_replay(body_lengths),
                   timeout=120, modules=mods, doc='mismatching lengths -> ValueError'))
    return cs
