"""C05 - the density gate keeps the densest whole bins holding the requested share."""
import itertools

from ..driver import Cond
from ..harness import H, Reject, catch, cond_fn
from .. import ch
from ..symnp.scalars import RealT
from .common import std_replay, meta_of

INFO = {
    'explanation': 'Bounded symbolic execution (CrossHair + z3) of the real source of '
                   'FlowCal.gate.density2d (both the bin_mask=None path and the replay path) on '
                   'the symnp model.  The function is a pipeline (events -> bins, then a cut on '
                   'the smoothed histogram) and the two halves are decided on the same re-hosted '
                   'function: mapping conditions use symbolic event positions (bin interior, on '
                   'the right/top edge, in the corner, outside) on a 2x3 grid with nx != ny and '
                   'judge the mask against the returned bin_mask through an independent '
                   'event-to-bin oracle; cut conditions place events by a symbolic bin index on a '
                   '2x2 grid and make the smoothed density of every bin and the gate fraction '
                   'solver reals (the Gaussian filter is a stub returning an arbitrary '
                   'non-negative value per bin, a function of the histogram), so the cut logic is '
                   'proved for every smoothing.',
    'functions': ['FlowCal.gate.density2d'],
    'bounds': {'quick': {'mapping': 'N=2 events, 2x3 grid, 11 position classes per event, '
                         'fraction from a table', 'cut': 'N=2 events, 2x2 grid, real densities '
                         'and fraction; two of five smoothing-width forms per assignment job'},
               'thorough': {'cut': 'N=2 with all five smoothing-width forms per job; every multiset '
                                   'of N=3 events with two forms per job; permuted events'}},
    'outside': ['FP rounding of f*n before ceil', 'contour geometry (skimage)', 'sample-derived '
                'bins (C19)', 'grids larger than 2x3', 'smoothing itself (scipy)'],
    'stubs': ['scipy.ndimage gaussian_filter: arbitrary non-negative value per bin, same values '
              'for the same histogram, positive total', 'skimage find_contours: empty list'],
    'assumptions': ['np.argsort is a stable sort (model)'],
}

XE = [0.0, 1.0, 2.0]
YE3 = [0.0, 1.0, 2.0, 3.0]
YE2 = [0.0, 1.0, 2.0]


def true_bin(x, y, xe, ye):
    """Independent event-to-bin rule: half-open bins, last bin closed on the right."""
    def idx(v, e):
        if v < e[0] or v > e[-1]:
            return None
        if v == e[-1]:
            return len(e) - 2
        for k in range(len(e) - 1):
            if e[k] <= v and v < e[k + 1]:
                return k
        return None
    i, j = idx(x, xe), idx(y, ye)
    if i is None or j is None:
        return None
    return (i, j)


def install(env, dens_fn):
    memo = {}

    def gaussian_filter(Hh, sigma=1.0, order=0, mode='reflect', cval=0.0, truncate=4.0):
        key = tuple(float(v) for v in Hh._elems())
        if key not in memo:
            memo[key] = dens_fn(Hh)
        return memo[key]
    env.hooks.set('gaussian_filter', gaussian_filter)
    env.hooks.set('find_contours', lambda image, level: [])
    env._vf_memo = memo


# ------------------------------------------------------------------ mapping

def positions(ye):
    """Position classes of one event on the grid XE x ye."""
    ny = len(ye) - 1
    pts = [(0.5 + i, 0.5 + j) for i in range(2) for j in range(ny)]        # interiors
    pts += [(2.0, 0.5), (0.5, ye[-1]), (2.0, ye[-1]), (1.0, 1.0),          # edges, corner, inner edge
            (-0.5, 0.5), (0.5, ye[-1] + 0.5), (2.5, ye[-1] + 1.0)]         # outside
    return pts


DENS_TABLES = [[6, 5, 4, 3, 2, 1], [1, 2, 3, 4, 5, 6], [3, 6, 1, 5, 2, 4]]
FTABLE = [0.0, 0.3, 0.5, 0.75, 1.0]


def body_mapping(B, I):
    np = B.np
    ye = YE3
    pts = positions(ye)
    P = len(pts)
    N = I['N']
    ev = [pts[ch.pick(I['p'][k], 0, P)] for k in range(N)]
    f = FTABLE[I['fi']]
    dens = DENS_TABLES[ch.pick(I['di'], 0, 3)]
    if B.kind == 'model':
        B.env._vf_memo.clear()
        B.env.hooks.set('gaussian_filter',
                        lambda Hh, **kw: np.array(dens, dtype='float64').reshape(Hh.shape))
    rows = [[x, 7.0, y] for (x, y) in ev]
    as_sample = I['as_sample']
    if as_sample:
        data = B.sample(rows, 'float64', channels=['X', 'M', 'Y'])
        chans = ['X', 2]
    else:
        data = B.arr(rows, 'float64')
        chans = [0, 2]
    bins = [np.array(XE), np.array(ye)]
    if B.kind == 'real':
        return replay_real(B, data, chans, bins, f, dens, ev, ye)
    r = catch(B.FC.gate.density2d, data, channels=chans, bins=bins, gate_fraction=f, sigma=0.0,
              full_output=True)
    if r[0] != 'ok':
        return False, 'density2d raised %s' % r[1], r[2]
    out = r[1]
    return judge(B, out, ev, XE, ye, f, rows, data, chans, bins)


def judge(B, out, ev, xe, ye, f, rows, data, chans, bins, dens=None):
    mask = [bool(v) for v in B.tolist(out.mask)]
    bm = B.tolist(out.bin_mask)
    n_in = 0
    for k, (x, y) in enumerate(ev):
        tb = true_bin(x, y, xe, ye)
        if tb is None:
            if mask[k]:
                return False, 'event outside the grid kept'
            continue
        n_in += 1
        if mask[k] != bool(bm[tb[0]][tb[1]]):
            return False, 'event does not share the fate of its bin'
    got = B.tolist(out.gated_data)
    exp = [rows[k] for k in range(len(ev)) if mask[k]]
    if len(got) != len(exp) or any(not B.close(a, b, 0.0) for g, e in zip(got, exp)
                                   for a, b in zip(g, e)):
        return False, 'gated_data is not data[mask]'
    import math
    need = int(math.ceil(f * n_in - 1e-12)) if not isinstance(f, RealT) else None
    if need is not None and sum(mask) < need:
        return False, 'fewer than ceil(f*n) in-grid events kept'
    return True


def replay_real(B, data, chans, bins, f, dens, ev, ye):
    """Real library: the smoothing is scipy's; the mapping oracle is independent of it."""
    r = catch(B.FC.gate.density2d, data, channels=chans, bins=bins, gate_fraction=f, sigma=0.0,
              full_output=True)
    if r[0] != 'ok':
        return False, 'density2d raised %s' % r[1], r[2]
    rows = [list(map(float, row)) for row in B.tolist(data)]
    return judge(B, r[1], ev, XE, ye, f, rows, data, chans, bins)


def make_mapping(fi, as_sample):
    def make(env):
        install(env, None)
        return cond_fn('d2d_mapping', [('p', 'Tuple[int, int]'), ('di', 'int')], body_mapping,
                       pre=['all(0 <= v <= 12 for v in p)', '0 <= di <= 2'],
                       consts={'N': 2, 'fi': fi, 'as_sample': as_sample})
    return make


# ------------------------------------------------------------------ cut logic

def body_cut(B, I):
    """2x2 grid; events at bin centres chosen by index (4 = outside); symbolic densities, f."""
    np = B.np
    if B.kind == 'real':
        return replay_cut(B, I)
    N = I['N']
    assign = I['assign']
    centres = [(0.5, 0.5), (0.5, 1.5), (1.5, 0.5), (1.5, 1.5), (-1.0, 0.5)]
    ev = [centres[a] for a in assign]
    f = H.real('f')
    dens = [H.real('d%d' % k) for k in range(4)]
    for d in dens:
        if not (d >= 0):
            raise Reject()
    # without loss of generality the smoothed histogram has total 1 (the code normalises it
    # itself and only the order of the densities matters); keeps the arithmetic linear
    if not (dens[0] + dens[1] + dens[2] + dens[3] == 1):
        raise Reject()
    B.env._vf_memo.clear()
    sigma = SIGMAS[ch.pick(I['si'], 0, len(SIGMAS))]
    seen_kw = []

    def gf(Hh, **kw):
        seen_kw.append(kw)
        return np.array(dens).reshape(Hh.shape)
    B.env.hooks.set('gaussian_filter', gf)
    rows = [[x, y] for (x, y) in ev]
    data = B.arr(rows, 'float64')
    bins = [np.array(XE), np.array(YE2)]
    r = catch(B.FC.gate.density2d, data, bins=bins, gate_fraction=f, sigma=sigma, full_output=True)
    n_in = sum(1 for a in assign if a != 4)
    if bool(f < 0) or bool(f > 1):
        H.mark('bad-fraction')
        return (r[0] == 'exc' and r[1] == 'ValueError'), 'gate fraction outside [0,1] accepted'
    if r[0] != 'ok':
        return False, 'density2d raised %s' % r[1], r[2]
    out = r[1]
    mask = [bool(v) for v in B.tolist(out.mask)]
    bm = [bool(v) for row in B.tolist(out.bin_mask) for v in row]
    counts = [sum(1 for a in assign if a == k) for k in range(4)]
    for k, a in enumerate(assign):
        if a == 4:
            if mask[k]:
                return False, 'event outside the grid kept'
        elif mask[k] != bm[a]:
            return False, 'event does not share the fate of its bin'
    kept = sum(mask)
    zero_sigma = sigma == 0.0
    if not seen_kw and zero_sigma:
        # a zero-width kernel is the identity: skipping the filter is legitimate, the
        # densities are then the raw counts
        dens = [float(c_) for c_ in counts]
        H.mark('filter-skipped-sigma0')
    elif kept > 0 or bool(f > 0):
        # otherwise the documented smoothing must have been requested
        if len(seen_kw) != 1:
            return False, 'documented Gaussian smoothing not applied'
        kw_ = seen_kw[0]
        if kw_.get('sigma') != sigma or kw_.get('order') != 0 or kw_.get('mode') != 'constant' \
                or kw_.get('cval') != 0.0 or kw_.get('truncate') != 6.0:
            return False, 'documented Gaussian smoothing not applied'
    # kept >= ceil(f * n_in): exact over the reals
    need_lo = f * n_in
    if not (kept >= need_lo):
        return False, 'fewer than ceil(f*n) in-grid events kept'
    H.mark('kept-%d' % kept)
    if bool(f == 0):
        if kept != 0:
            return False, 'f = 0 keeps events'
    if bool(f == 1) and kept != n_in:
        return False, 'f = 1 does not keep all in-grid events'
    # density ordering: no kept bin is less dense than a dropped bin
    for k in range(4):
        for j in range(4):
            if bm[k] and not bm[j]:
                if bool(dens[k] < dens[j]):
                    return False, 'a kept bin is less dense than a dropped bin'
    # minimality: dropping the least dense kept non-empty bin falls below the target
    kept_bins = [k for k in range(4) if bm[k] and counts[k] > 0]
    if kept_bins and kept > 0:
        least = kept_bins[0]
        for k in kept_bins[1:]:
            if bool(dens[k] < dens[least]):
                least = k
        # (among equally dense bins any may be the last one taken)
        ok_min = False
        for k in kept_bins:
            if bool(dens[k] == dens[least]) and bool(kept - counts[k] < need_lo):
                ok_min = True
        if not ok_min:
            return False, 'more bins kept than needed for ceil(f*n) events'
    # replay with the returned bin edges and bin mask
    r2 = catch(B.FC.gate.density2d, data, bins=list(out.bin_edges), bin_mask=out.bin_mask,
               gate_fraction=f, sigma=sigma, full_output=True)
    if r2[0] != 'ok':
        return False, 're-gating raised %s' % r2[1], r2[2]
    if [bool(v) for v in B.tolist(r2[1].mask)] != mask:
        return False, 're-gating with bin_edges and bin_mask gives another mask'
    short = catch(B.FC.gate.density2d, data, bins=bins, gate_fraction=f, sigma=sigma)
    if short[0] != 'ok' or B.tolist(short[1]) != B.tolist(out.gated_data):
        return False, 'short form differs from full form'
    if I['perm'] and N >= 2:
        # permuting the events permutes the mask
        order = list(reversed(range(N)))
        data2 = B.arr([rows[k] for k in order], 'float64')
        r3 = catch(B.FC.gate.density2d, data2, bins=bins, gate_fraction=f, sigma=sigma,
                   full_output=True)
        if r3[0] != 'ok':
            return False, 'permuted call raised'
        m3 = [bool(v) for v in B.tolist(r3[1].mask)]
        if [m3[order.index(k)] for k in range(N)] != mask:
            return False, 'kept set depends on the order of events'
    return True


def witness_smoothing(B):
    """Replay aid for 'smoothing not applied': compare the real gate with a reference cut on the
    SciPy-smoothed histogram over a few fixed histograms, kernels and fractions."""
    import math
    import scipy.ndimage
    np = B.np
    centres = [(0.5, 0.5), (0.5, 1.5), (1.5, 0.5), (1.5, 1.5)]
    for Hc in ([3, 0, 2, 2], [0, 3, 2, 2], [4, 1, 0, 3], [1, 5, 2, 0], [2, 2, 3, 0]):
        rows = [list(centres[k]) for k in range(4) for _ in range(Hc[k])]
        n = len(rows)
        for sigma in SIGMAS:
            D = scipy.ndimage.gaussian_filter(np.array(Hc, dtype=float).reshape(2, 2), sigma=sigma,
                                              order=0, mode='constant', cval=0.0,
                                              truncate=6.0).ravel().tolist()
            if len(set(round(d, 12) for d in D)) < 4:
                continue          # ties: order unspecified
            order = sorted(range(4), key=lambda k: -D[k])
            for f in (0.2, 0.3, 0.45, 0.6, 0.8):
                need = int(math.ceil(f * n))
                acc, keep = 0, set()
                for k in order:
                    keep.add(k)
                    acc += Hc[k]
                    if acc >= need:
                        break
                out = B.FC.gate.density2d(B.arr(rows, 'float64'),
                                          bins=[np.array(XE), np.array(YE2)], gate_fraction=f,
                                          sigma=sigma, full_output=True)
                bm = [bool(v) for row in out.bin_mask.tolist() for v in row]
                if set(k for k in range(4) if bm[k]) != keep:
                    return False, 'documented Gaussian smoothing not applied', \
                        'H=%s sigma=%s f=%s kept bins %s, reference %s' % (
                            Hc, sigma, f, [k for k in range(4) if bm[k]], sorted(keep))
    return True, 'no witness'


def replay_cut(B, I):
    """Real replay: the documented smoothing is SciPy's Gaussian filter, used as reference."""
    np = B.np
    import math
    if H.replay_inputs and 'smoothing not applied' in str(H.replay_inputs.get('detail')):
        return witness_smoothing(B)
    assign = I['assign']
    centres = [(0.5, 0.5), (0.5, 1.5), (1.5, 0.5), (1.5, 1.5), (-1.0, 0.5)]
    rows = [list(centres[a]) for a in assign]
    f = float(H.real('f'))
    sigma = SIGMAS[I['si']]
    data = B.arr(rows, 'float64')
    bins = [np.array(XE), np.array(YE2)]
    r = catch(B.FC.gate.density2d, data, bins=bins, gate_fraction=f, sigma=sigma, full_output=True)
    if f < 0 or f > 1:
        return (r[0] == 'exc' and r[1] == 'ValueError'), 'gate fraction outside [0,1] accepted'
    if r[0] != 'ok':
        return False, 'density2d raised %s' % r[1], r[2]
    out = r[1]
    mask = [bool(v) for v in out.mask.tolist()]
    bm = [bool(v) for row in out.bin_mask.tolist() for v in row]
    n_in = sum(1 for a in assign if a != 4)
    counts = [sum(1 for a in assign if a == k) for k in range(4)]
    # reference smoothing: the documented Gaussian filter of the installed SciPy
    import scipy.ndimage
    Hc = np.array(counts, dtype=float).reshape(2, 2)
    Dref = scipy.ndimage.gaussian_filter(Hc, sigma=sigma, order=0, mode='constant', cval=0.0,
                                         truncate=6.0).ravel().tolist()
    for k, a in enumerate(assign):
        if a == 4 and mask[k]:
            return False, 'event outside the grid kept'
        if a != 4 and mask[k] != bm[a]:
            return False, 'event does not share the fate of its bin'
    kept = sum(mask)
    if kept < math.ceil(f * n_in - 1e-12):
        return False, 'fewer than ceil(f*n) in-grid events kept'
    if f == 0 and kept != 0:
        return False, 'f = 0 keeps events'
    if f == 1 and kept != n_in:
        return False, 'f = 1 does not keep all in-grid events'
    for k in range(4):
        for j in range(4):
            if bm[k] and not bm[j] and Dref[k] < Dref[j] - 1e-12 * max(Dref):
                return False, 'a kept bin is less dense than a dropped bin'
    kb = [k for k in range(4) if bm[k] and counts[k] > 0]
    if kb and kept > 0:
        mn = min(Dref[k] for k in kb)
        if not any(abs(Dref[k] - mn) <= 1e-12 * max(Dref) and kept - counts[k] < f * n_in
                   for k in kb):
            return False, 'more bins kept than needed for ceil(f*n) events'
    r2 = catch(B.FC.gate.density2d, data, bins=list(out.bin_edges), bin_mask=out.bin_mask,
               gate_fraction=f, sigma=sigma, full_output=True)
    if r2[0] != 'ok' or [bool(v) for v in r2[1].mask.tolist()] != mask:
        return False, 're-gating with bin_edges and bin_mask gives another mask'
    return True


SIGMAS = [0.0, 10.0, (0.0, 2.0), (2.0, 0.0), (1.0, 3.0)]


def make_cut(assign, perm, sis=(0, 1, 2, 3, 4)):
    def make(env):
        install(env, None)
        return cond_fn('d2d_cut', [('si', 'int')], body_cut, pre=['si in %r' % (tuple(sis),)],
                       consts={'N': len(assign), 'assign': list(assign), 'perm': perm})
    return make


def body_monotone(B, I):
    """f1 <= f2 => kept(f1) subset of kept(f2)."""
    np = B.np
    assign = I['assign']
    centres = [(0.5, 0.5), (0.5, 1.5), (1.5, 0.5), (1.5, 1.5), (-1.0, 0.5)]
    rows = [list(centres[a]) for a in assign]
    f1, f2 = H.real('f1'), H.real('f2')
    if B.kind == 'model':
        if not (0 <= f1) or not (f1 <= f2) or not (f2 <= 1):
            raise Reject()
        dens = [H.real('d%d' % k) for k in range(4)]
        for d in dens:
            if not (d >= 0):
                raise Reject()
        if not (dens[0] + dens[1] + dens[2] + dens[3] == 1):
            raise Reject()
        # distinct densities: with ties the order of equally dense bins is unspecified
        for a_, b_ in itertools.combinations(range(4), 2):
            if bool(dens[a_] == dens[b_]):
                raise Reject()
        B.env._vf_memo.clear()
        B.env.hooks.set('gaussian_filter', lambda Hh, **kw: np.array(dens).reshape(Hh.shape))
    elif not (0 <= f1 <= f2 <= 1):
        raise Reject()
    data = B.arr(rows, 'float64')
    bins = [np.array(XE), np.array(YE2)]
    r1 = catch(B.FC.gate.density2d, data, bins=bins, gate_fraction=f1, sigma=0.0, full_output=True)
    r2 = catch(B.FC.gate.density2d, data, bins=bins, gate_fraction=f2, sigma=0.0, full_output=True)
    if r1[0] != 'ok' or r2[0] != 'ok':
        return False, 'density2d raised', str(r1[1:]) + str(r2[1:])
    m1 = [bool(v) for v in B.tolist(r1[1].mask)]
    m2 = [bool(v) for v in B.tolist(r2[1].mask)]
    for a_, b_ in zip(m1, m2):
        if a_ and not b_:
            return False, 'kept set does not grow with the gate fraction'
    return True


def make_monotone(assign):
    def make(env):
        install(env, None)
        return cond_fn('d2d_monotone', [], body_monotone, consts={'assign': list(assign)})
    return make


def body_errors(B, I):
    np = B.np
    nev = ch.pick(I['nev'], 0, 4)
    nch = ch.pick(I['nch'], 0, 4)
    rows = [[0.5, 0.5, 0.5], [1.5, 1.5, 0.5], [0.5, 1.5, 1.5]][:nev]
    data = B.arr(rows, 'float64') if nev else np.zeros((0, 3))
    if B.kind == 'model':
        B.env.hooks.set('gaussian_filter', lambda Hh, **kw: Hh + 1.0)
    r = catch(B.FC.gate.density2d, data, channels=[0, 1, 2][:nch],
              bins=[np.array(XE), np.array(YE2)], gate_fraction=0.5, sigma=0.0)
    if nch != 2 or nev < 2:
        return (r[0] == 'exc' and r[1] == 'ValueError'), \
            'wrong number of channels or fewer than two events accepted'
    return r[0] == 'ok', 'valid call refused', str(r[1:])


def make_errors(env):
    install(env, None)
    return cond_fn('d2d_errors', [('nev', 'int'), ('nch', 'int')], body_errors,
                   pre=['0 <= nev <= 3 and 0 <= nch <= 3'])


def conditions(tier):
    q = tier == 'quick'
    mods = ('plot', 'io', 'gate')
    cs = []
    for fi in range(len(FTABLE)):
        for as_sample in ((False,) if q else (False, True)):
            cs.append(Cond('mapping_f%d%s' % (fi, '_sample' if as_sample else ''),
                           make=make_mapping(fi, as_sample), replay=std_replay(body_mapping),
                           timeout=900, modules=mods,
                           doc='2x3 grid (nx != ny), 2 events over 13 position classes (interior, '
                               'right/top edge, corner, inner edge, outside), f=%s: mask[i] <=> '
                               'in-grid and bin_mask[true bin]; gated == data[mask]' % FTABLE[fi]))
    cs.append(Cond('mapping_f2_sample', make=make_mapping(2, True), replay=std_replay(body_mapping),
                   timeout=1000, modules=mods, doc='same on a sample with channels by name'))
    # quick: every assignment of N=2 events, two of the five smoothing-width forms per job (the
    # width is only handed through to the filter, so the product with the assignment adds
    # paths, not coverage).  thorough: the same N=2 assignments with all five forms, plus every
    # multiset of N=3 events (event order is covered by the permutation check) with two forms.
    plans = []
    for j, assign in enumerate(itertools.product(range(5), repeat=2)):
        plans.append((assign, (j % 5, (j + 2) % 5) if q else (0, 1, 2, 3, 4)))
    if not q:
        for j, assign in enumerate(itertools.combinations_with_replacement(range(5), 3)):
            plans.append((assign, (j % 5, (j + 2) % 5)))
    for assign, sis in plans:
        if sum(1 for a in assign if a != 4) == 0:
            continue
        cs.append(Cond('cut_' + ''.join(map(str, assign)), make=make_cut(assign, not q, sis),
                       replay=std_replay(body_cut), timeout=700 if q else 2400, modules=mods,
                       doc='events in bins %s (4 = outside) of a 2x2 grid, symbolic densities and '
                           'fraction, smoothing width forms %s: atomic bins, outside never kept, '
                           'kept >= f*n, minimal, density order, f=0/1, re-gating reproduces the '
                           'mask, short == full%s' % (assign, [SIGMAS[i] for i in sis],
                                                      '' if q else ', permuted events')))
    for assign in ((0, 1), (0, 3), (1, 1), (2, 4)) if q else \
            [a for a in itertools.product(range(5), repeat=2) if a != (4, 4)]:
        cs.append(Cond('monotone_' + ''.join(map(str, assign)), make=make_monotone(assign),
                       replay=std_replay(body_monotone), timeout=400, modules=mods,
                       doc='f1 <= f2 => kept(f1) subset kept(f2) (distinct densities)'))
    cs.append(Cond('errors', make=make_errors, replay=std_replay(body_errors), timeout=120,
                   modules=mods, doc='!= 2 channels or < 2 events -> ValueError'))
    return [c for c in _dedup(cs)]


def _dedup(cs):
    seen = set()
    for c in cs:
        if c.name not in seen:
            seen.add(c.name)
            yield c
