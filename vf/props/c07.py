"""C07 - ranges follow the data through unit changes, so saturation gating commutes."""
import types

from ..driver import Cond
from ..harness import H, Reject, catch, cond_fn
from .. import ch
from ..symnp import scalars
from ..symnp.scalars import RealT
from .common import meta_of, is_sample, std_replay
from .c03 import real_float

INFO = {
    'explanation': 'Exact (bitwise) equality is decided by congruence: exactly rounded IEEE '
                   'operations (+,-,*,/) are deterministic functions of their operands and are '
                   'represented by their real-number terms shared by every evaluation path, while '
                   'transcendental functions (10**x, x**m, exp) carry their *evaluation path* in '
                   'the function symbol - element-wise NumPy evaluation on an array (vec) versus '
                   'evaluation on a Python/NumPy scalar (sc) - and no axiom relates the two, '
                   'because NumPy documents none (they differ in the last bit for ~5% of '
                   'arguments on this installation).  CrossHair executes to_rfi / to_mef / the '
                   'real standard-curve closure of mef.fit_beads_autofluorescence / '
                   'gate.high_low symbolically; "limits == value of an event at the old limit" '
                   'must then hold syntactically-modulo-arithmetic, and gate commutation follows '
                   'by order reasoning under the stated monotonicity assumption.',
    'functions': ['FlowCal.transform.to_rfi', 'FlowCal.transform.to_mef', 'FlowCal.gate.high_low',
                  'sc_fun closure of FlowCal.mef.fit_beads_autofluorescence',
                  'FlowCal.io.FCSData.range'],
    'bounds': {'quick': {'shape': '3 events x 2 channels', 'events': 'reals constrained only by '
                         'order relations to the limits (at, next to, away)'},
               'thorough': {}},
    'outside': ['libm/SIMD internals of the installed NumPy'],
    'stubs': ['scipy.optimize.minimize returns arbitrary (m>0, b, af>=0)'],
    'assumptions': ['NumPy element-wise pow/exp on an array is independent of position and array '
                    'length (checked concretely on every run by condition vector_path_uniform)',
                    'the rounded amplifier law / standard curve is strictly increasing on the '
                    'arguments that occur (instantiated pairwise; not proved for IEEE arithmetic)'],
}

NAMES = ('FL1', 'FL2')


def tagged(env):
    scalars.CONFIG.tag_paths = True
    scalars.CONFIG.axioms = dict(scalars.CONFIG.axioms)
    scalars.CONFIG.axioms['pow'] = ('nonneg', 'mono_base')
    env.shadow('transform', float=real_float)


def mk_rfi_sample(B, nrows_extra=1):
    lo = [H.real('lo0'), H.real('lo1')]
    hi = [H.real('hi0'), H.real('hi1')]
    x2 = [H.real('x20'), H.real('x21')]
    a0, a1, r, g = H.real('a0'), H.real('a1'), H.real('r'), H.real('g')
    if B.kind == 'model':
        if not (r > 0) or not (g > 0) or not (a1 > 0) or not (a0 >= 0):
            raise Reject()
        for j in range(2):
            if not (lo[j] < hi[j]):
                raise Reject()
    if B.kind == 'real' and not (r > 0 and g > 0 and a1 > 0 and a0 >= 0 and lo[0] < hi[0]
                                 and lo[1] < hi[1]):
        raise Reject()
    rows = [[lo[0], lo[1]], [hi[0], hi[1]], [x2[0], x2[1]]]
    meta = dict(channels=list(NAMES), amplification_type=[(a0, a1), (0.0, 0.0)],
                amplifier_gain=[None, g], resolution=[r, r], range=[[lo[0], hi[0]], [lo[1], hi[1]]])
    return B.sample(rows, 'float64', **meta), rows, lo, hi


def body_rfi_range(B, I):
    """Converted limits are exactly the converted events that sat at the old limits."""
    if B.kind == 'real' and not I.get('_direct'):
        # first the realised counterexample itself (structural defects reproduce directly),
        # then the lattice search for a last-bit witness
        r0 = body_rfi_range(B, dict(I, _direct=True))
        if r0 is not True and not (isinstance(r0, tuple) and r0[0]):
            return r0
        return witness_search(B, 'range')
    d, rows, lo, hi = mk_rfi_sample(B)
    sel = [[0], [1], [0, 1], [1, 0]][ch.pick(I['sel'], 0, 4)]
    res = catch(B.FC.transform.to_rfi, d, sel)
    if res[0] != 'ok':
        return False, 'to_rfi raised %s' % res[1], res[2]
    out = res[1]
    vals = B.tolist(out)
    rng = out.range()
    for c in range(2):
        if c in sel:
            if not (rng[c][0] == vals[0][c]) or not (rng[c][1] == vals[1][c]):
                return False, 'to_rfi: range limit is not bit-identical to the converted limit event'
        else:
            if not (rng[c][0] == lo[c]) or not (rng[c][1] == hi[c]):
                return False, 'to_rfi: unconverted channel lost its limits'
    return True


def body_rfi_commute(B, I):
    """high_low(default) before == after the conversion."""
    if B.kind == 'real' and not I.get('_direct'):
        r0 = body_rfi_commute(B, dict(I, _direct=True))
        if r0 is not True and not (isinstance(r0, tuple) and r0[0]):
            return r0
        return witness_search(B, 'commute')
    d, rows, lo, hi = mk_rfi_sample(B)
    sel = [[0], [1], [0, 1]][ch.pick(I['sel'], 0, 3)]
    hl = B.FC.gate.high_low
    conv = catch(B.FC.transform.to_rfi, d, sel)
    if conv[0] != 'ok':
        return False, 'to_rfi raised %s' % conv[1], conv[2]
    after = catch(hl, conv[1], full_output=True)
    before = catch(hl, d, full_output=True)
    if after[0] != 'ok' or before[0] != 'ok':
        return False, 'high_low raised', str(after[1:]) + str(before[1:])
    m1 = [bool(v) for v in B.tolist(after[1].mask)]
    m0 = [bool(v) for v in B.tolist(before[1].mask)]
    if m0 != m1:
        return False, 'saturation gate before and after to_rfi keep different events'
    return True


def witness_search(B, what):
    """Replay aid: look for a concrete witness of the abstract disagreement on the real library
    over a fixed parameter lattice (not the deciding step)."""
    np = B.np
    for r in (256, 512, 1024, 2048, 4096, 65536, 262144, 1000):
        for a0 in [0.25 * k for k in range(2, 33)]:
            for a1 in (1.0, 0.1, 10.0, 0.5):
                hi = float(r - 1)
                rows = [[0, 0], [r - 1, 1], [r - 2, 1]]
                meta = dict(channels=list(NAMES), amplification_type=[(a0, a1), (0.0, 0.0)],
                            amplifier_gain=[None, 3.0], resolution=[r, r],
                            range=[[0.0, hi], [0.0, hi]])
                d = B.sample(rows, 'int64', **meta)
                out = B.FC.transform.to_rfi(d, [0, 1])
                if what == 'range':
                    if float(out[1, 0]) != float(out.range(0)[1]) or \
                            float(out[0, 0]) != float(out.range(0)[0]):
                        return False, 'to_rfi: range limit is not bit-identical to the converted ' \
                                      'limit event', 'a0=%r a1=%r r=%r' % (a0, a1, r)
                else:
                    m0 = B.FC.gate.high_low(d, full_output=True).mask.tolist()
                    m1 = B.FC.gate.high_low(out, full_output=True).mask.tolist()
                    if m0 != m1:
                        return False, 'saturation gate before and after to_rfi keep different ' \
                                      'events', 'a0=%r a1=%r r=%r' % (a0, a1, r)
    return True, 'no witness on the lattice'


def make_rfi(body, nsel):
    def make(env):
        tagged(env)
        return cond_fn('rfi', [('sel', 'int')], body, pre=['0 <= sel < %d' % nsel])
    return make


# ------------------------------------------------------------------ MEF

def real_std_curve(B, m, b, af):
    """The real sc_fun closure of fit_beads_autofluorescence with the optimiser stubbed."""
    mef = B.FC.mef
    np = B.np
    if B.kind == 'model':
        def minimize(fun, x0, **kw):
            return types.SimpleNamespace(x=np.array([m, b, af]), success=True)
        saved = mef.minimize
        mef.minimize = minimize
        try:
            out = mef.fit_beads_autofluorescence(np.array([10.0, 100.0, 1000.0]),
                                                 np.array([30.0, 400.0, 5000.0]))
        finally:
            mef.minimize = saved
        return out[0]
    import scipy.optimize
    saved = mef.minimize
    mef.minimize = lambda fun, x0, **kw: types.SimpleNamespace(x=np.array([m, b, af]),
                                                               success=True)
    try:
        out = mef.fit_beads_autofluorescence(np.array([10.0, 100.0, 1000.0]),
                                             np.array([30.0, 400.0, 5000.0]))
    finally:
        mef.minimize = saved
    return out[0]


def mk_mef_sample(B):
    lo = [H.real('lo0'), H.real('lo1')]
    hi = [H.real('hi0'), H.real('hi1')]
    x2 = [H.real('x20'), H.real('x21')]
    if B.kind == 'model':
        for j in range(2):
            if not (lo[j] >= 0) or not (lo[j] < hi[j]) or not (x2[j] >= 0):
                raise Reject()
    if B.kind == 'real' and not (lo[0] >= 0 and lo[1] >= 0 and lo[0] < hi[0] and lo[1] < hi[1]
                                 and x2[0] >= 0 and x2[1] >= 0):
        raise Reject()
    rows = [[lo[0], lo[1]], [hi[0], hi[1]], [x2[0], x2[1]]]
    meta = dict(channels=list(NAMES), range=[[lo[0], hi[0]], [lo[1], hi[1]]])
    return B.sample(rows, 'float64', **meta), rows, lo, hi


def body_mef(B, I):
    if B.kind == 'real' and not I.get('_direct'):
        r0 = body_mef(B, dict(I, _direct=True))
        if r0 is not True and not (isinstance(r0, tuple) and r0[0]):
            return r0
        return witness_search_mef(B, I['what'])
    m, b, af = H.real('m'), H.real('b'), H.real('af')
    if B.kind == 'model':
        if not (m > 0) or not (af >= 0):
            raise Reject()
    elif not (m > 0 and af >= 0):
        return True
    d, rows, lo, hi = mk_mef_sample(B)
    sc = real_std_curve(B, m, b, af)
    sel = [[0], [1]][ch.pick(I['sel'], 0, 2)]
    chan = NAMES[sel[0]] if I['byname'] else sel[0]
    conv = catch(B.FC.transform.to_mef, d, chan, [sc], [chan])
    if conv[0] != 'ok':
        return False, 'to_mef raised %s' % conv[1], conv[2]
    out = conv[1]
    if I['what'] == 'range':
        vals = B.tolist(out)
        rng = out.range()
        for c in range(2):
            if c in sel:
                if not (rng[c][0] == vals[0][c]) or not (rng[c][1] == vals[1][c]):
                    return False, 'to_mef: range limit is not bit-identical to the converted ' \
                                  'limit event'
            elif not (rng[c][0] == lo[c]) or not (rng[c][1] == hi[c]):
                return False, 'to_mef: unconverted channel lost its limits'
        return True
    hl = B.FC.gate.high_low
    after = catch(hl, out, full_output=True)
    before = catch(hl, d, full_output=True)
    if after[0] != 'ok' or before[0] != 'ok':
        return False, 'high_low raised', str(after[1:]) + str(before[1:])
    m1 = [bool(v) for v in B.tolist(after[1].mask)]
    m0 = [bool(v) for v in B.tolist(before[1].mask)]
    if m0 != m1:
        return False, 'saturation gate before and after to_mef keep different events'
    return True


def witness_search_mef(B, what):
    np = B.np
    for mi in range(0, 41):
        for bi in range(0, 71, 3):
            m, b = 0.85 + mi * 0.01, bi * 0.1
            sc = real_std_curve(B, m, b, 0.0)
            for hi in (1023.0, 9999.5, 262143.0, 8191.3, 31622.7766, 255.0, 4095.0):
                rows = [[0.0, 0.0], [hi, 1.0], [hi / 2, 1.0]]
                meta = dict(channels=list(NAMES), range=[[0.0, hi], [0.0, hi]])
                d = B.sample(rows, 'float64', **meta)
                out = B.FC.transform.to_mef(d, 0, [sc], [0])
                if what == 'range':
                    if float(out[1, 0]) != float(out.range(0)[1]):
                        return False, 'to_mef: range limit is not bit-identical to the ' \
                                      'converted limit event', 'm=%r b=%r hi=%r' % (m, b, hi)
                else:
                    m0 = B.FC.gate.high_low(d, full_output=True).mask.tolist()
                    m1 = B.FC.gate.high_low(out, full_output=True).mask.tolist()
                    if m0 != m1:
                        return False, 'saturation gate before and after to_mef keep different ' \
                                      'events', 'm=%r b=%r hi=%r' % (m, b, hi)
    return True, 'no witness on the lattice'


def make_mef(what):
    def make(env):
        tagged(env)
        return cond_fn('mef', [('sel', 'int'), ('byname', 'bool')], body_mef,
                       pre=['0 <= sel <= 1'], consts={'what': what})
    return make


def run_uniform(env):
    """Assumption check (concrete, real NumPy): element-wise pow on an array does not depend on
    the element's position or on the array length."""
    import numpy as rnp
    bad = 0
    n = 0
    rng = rnp.random.RandomState(7)
    for a in (3.0, 4.0, 4.5, 0.93, 1.17):
        xs = rng.uniform(0, 1023, 257)
        full = 10 ** (a / 1024.0 * xs)
        pw = xs ** a
        for i in range(0, 257, 5):
            for L in (1, 2, 3, 7, 8, 9, 16):
                seg = xs[i:i + L]
                n += 2
                if not rnp.array_equal(10 ** (a / 1024.0 * seg), full[i:i + L]):
                    bad += 1
                if not rnp.array_equal(seg ** a, pw[i:i + L]):
                    bad += 1
    return {'status': 'confirmed' if not bad else 'error', 'direct_queries': 0, 'paths_done': 0,
            'validated_cases': n, 'detail': '' if not bad else '%d of %d slices differ' % (bad, n),
            'samples': [{'slices_compared': n, 'mismatches': bad}]}


def conditions(tier):
    mods = ('plot', 'io', 'transform', 'stats', 'gate', 'mef')
    return [
        Cond('vector_path_uniform', kind='direct', run=run_uniform, timeout=60, modules=mods,
             doc='assumption: NumPy vector pow is position- and length-independent'),
        Cond('rfi_range_exact', make=make_rfi(body_rfi_range, 4), replay=std_replay(body_rfi_range),
             timeout=300, modules=mods,
             doc='to_rfi: each converted limit is the same term as the converted value of an '
                 'event at the old limit (path-tagged transcendental functions); unconverted '
                 'channels keep their limits'),
        Cond('rfi_gate_commutes', make=make_rfi(body_rfi_commute, 3),
             replay=std_replay(body_rfi_commute), timeout=600, modules=mods,
             doc='high_low with default thresholds keeps the same events before and after '
                 'to_rfi'),
        Cond('mef_range_exact', make=make_mef('range'), replay=std_replay(body_mef), timeout=300,
             modules=mods, doc='same for to_mef with the real standard-curve closure'),
        Cond('mef_gate_commutes', make=make_mef('commute'), replay=std_replay(body_mef),
             timeout=600, modules=mods, doc='gate commutes with to_mef'),
    ]
