"""C14 - TEXT keywords and values are returned exactly as written, or rejected."""
import warnings

from ..driver import Cond
from ..harness import H, Reject, catch, cond_fn
from .. import ch
from .common import std_replay

INFO = {
    'explanation': 'Bounded symbolic execution (CrossHair + z3 strings) of the real source of '
                   'FlowCal.io.read_fcs_text_segment driven through a stub buffer.  (A) the '
                   'segment is a symbolic string over {delimiter, two other symbols}; the result '
                   'is compared with an independent left-to-right tokenizer of the FCS escaping '
                   'rule.  (B) round trip: keyword/value tokens with a symbolic number of interior '
                   'and trailing delimiter runs are written by the harness\'s own encoder and '
                   'must be read back exactly, for a symbolic choice of delimiter, primary and '
                   'supplemental.  (C) FCSFile.__init__ with recording segment readers: '
                   'supplemental TEXT merged over primary, ANALYSIS parsed with the primary '
                   'delimiter, unparseable ANALYSIS -> warning and {}.',
    'functions': ['FlowCal.io.read_fcs_text_segment', 'FlowCal.io.FCSFile.__init__ (TEXT / '
                  'supplemental TEXT / ANALYSIS call sites)'],
    'bounds': {'quick': {'differential': 'segments of <= 8 characters over a 3-symbol alphabet',
                         'round_trip': '2 pairs; first key and value with 3 chunks and delimiter '
                                       'runs of 0..2 between/after chunks; 4 delimiters'},
               'thorough': {'differential': '<= 11 characters', 'round_trip': 'runs of 0..3'}},
    'outside': ['segments longer than the bound (the parser state is (parity of the current '
                'delimiter run, accumulator emptiness); an argument, not a proof)',
                'byte decoding (ISO-8859-1 is a bijection on bytes)'],
    'stubs': ['file object: seek/read over a string', 'segment readers in condition C'],
    'assumptions': [],
}


class _Bytes(object):
    def __init__(self, s):
        self.s = s

    def decode(self, enc=None):
        return self.s

    def __len__(self):
        return len(self.s)


class Buf(object):
    """File-like object over a (possibly symbolic) string."""

    def __init__(self, s, kind):
        self.s = s
        self.pos = 0
        self.kind = kind

    def seek(self, n):
        self.pos = n

    def read(self, k):
        r = self.s[self.pos:self.pos + k]
        self.pos = self.pos + k
        if self.kind == 'real':
            return r.encode('ISO-8859-1')
        return _Bytes(r)


# ------------------------------------------------------------------ reference tokenizer

def tokens_lr(body, d):
    """Left-to-right tokenisation of `body` (text after the optional leading delimiter).
    -> list of tokens if body is (tok d)* with every tok non-empty, not starting with d and
    containing d only doubled; else None."""
    toks = []
    i = 0
    n = len(body)
    while i < n:
        if body[i] == d:
            return None              # token would start with the delimiter / be empty
        cur = ''
        closed = False
        while i < n:
            c = body[i]
            if c != d:
                cur = cur + c
                i += 1
            elif i + 1 < n and body[i + 1] == d:
                cur = cur + d
                i += 2
            else:
                i += 1
                closed = True
                break
        if not closed:
            return None
        toks.append(cur)
    return toks


def reference(s, d, supplemental):
    """-> ('dict', pairs, need_warning) | ('error',)"""
    if len(s) == 0:
        return ('dict', [], False)
    if not supplemental and s[0] != d:
        return ('error',)
    last = s.rfind(d)
    if last == -1:
        return ('dict', [], False)           # supplemental without any delimiter: empty
    s1 = s[:last + 1]
    body = s1[1:] if s1[0] == d else s1

    def pairs(b):
        t = tokens_lr(b, d)
        if t is None or len(t) % 2 != 0:
            return None
        return [(t[i], t[i + 1]) for i in range(0, len(t), 2)]
    p = pairs(body)
    if p is not None:
        return ('dict', p, False)
    if len(body) >= 2 and body[-1] == d and body[-2] == d:
        p = pairs(body[:-1])
        if p is not None:
            return ('dict', p, True)
    return ('error',)


def run_parser(B, s, d, supplemental, explicit=False):
    buf = Buf(s, B.kind)
    with warnings.catch_warnings(record=True) as w:
        warnings.simplefilter('always')
        r = catch(B.FC.io.read_fcs_text_segment, buf, 0, len(s) - 1,
                  delim=(d if (supplemental or explicit) else None), supplemental=supplemental)
        warned = len(w) > 0
    return r, warned


def body_diff(B, I):
    s, supplemental = I['seg'], I['supplemental']
    explicit = I.get('explicit', False)
    if supplemental or explicit:
        d = '/ab'[ch.pick(I['di'], 0, 3)]
    else:
        if len(s) == 0:
            d = '/'
        else:
            d = s[0]
    r, warned = run_parser(B, s, d, supplemental, explicit)
    ref = reference(s, d, supplemental)
    if r[0] == 'exc':
        if r[1] != 'ValueError':
            return False, 'text: %s escapes instead of ValueError' % r[1]
        if ref[0] == 'dict' and not ref[2]:
            H.mark('refused-wellformed')
            return False, 'text: well-formed segment refused'
        H.mark('refused')
        return True
    text, dl = r[1]
    if ref[0] == 'error':
        return False, 'text: ill-formed segment silently read'
    exp = {}
    for k, v in ref[1]:
        exp[k] = v
    if dict(text) != exp:
        return False, 'text: keywords/values differ from the written ones'
    if ref[2] and not warned:
        return False, 'text: tolerated ill-formed ending read without warning'
    H.mark('parsed-%d' % len(exp))
    return True


def make_diff(L, supplemental, explicit=False):
    def make(env):
        params = [('seg', 'str')]
        pre = ['len(seg) <= %d and all(c_ in "/ab" for c_ in seg)' % L]
        if supplemental or explicit:
            params.append(('di', 'int'))
            pre.append('0 <= di <= 2')
        return cond_fn('text_diff', params, body_diff, pre=pre,
                       consts={'supplemental': supplemental, 'explicit': explicit})
    return make


# ------------------------------------------------------------------ round trip

DELIMS = ['/', '|', '\\', '*']


def mk_token(chunks, runs, d):
    """chunk0 d^r0 chunk1 d^r1 chunk2 d^r2 (literal text of a keyword or value)."""
    t = ''
    for c, r in zip(chunks, runs):
        t = t + c + d * r
    return t


def encode(pairs, d, lead):
    s = d if lead else ''
    for k, v in pairs:
        s = s + k.replace(d, d + d) + d + v.replace(d, d + d) + d
    return s


def body_round(B, I):
    d = DELIMS[ch.pick(I['di'], 0, 4)]
    R = I['maxrun'] + 1
    rk = [ch.pick(x, 0, R) for x in I['rk']]
    rv = [ch.pick(x, 0, R) for x in I['rv']]
    supplemental, lead = I['supplemental'], I['lead']
    k1 = mk_token(['k', 'x', 'y'], rk, d)
    v1 = mk_token(['v', 'p', 'q'], rv, d)
    pairs = [(k1, v1), ('K2', 'v2' + d)] if I['two'] else [(k1, v1)]
    if not supplemental:
        lead = True
    s = encode(pairs, d, lead)
    r, warned = run_parser(B, s, d, supplemental)
    if r[0] != 'ok':
        return False, 'round trip: written segment refused (%s)' % (r[1],)
    text, dl = r[1]
    exp = dict(pairs)
    if dict(text) != exp:
        return False, 'round trip: read-back keywords/values differ'
    if warned:
        return False, 'round trip: well-formed segment read with a warning'
    H.mark('pairs-%d' % len(exp))
    return True


def make_round(maxrun, supplemental, two):
    def make(env):
        params = [('di', 'int'), ('rk', 'Tuple[int, int, int]'), ('rv', 'Tuple[int, int, int]')]
        pre = ['0 <= di <= 3', 'all(0 <= x <= %d for x in rk)' % maxrun,
               'all(0 <= x <= %d for x in rv)' % maxrun]
        if supplemental:
            params.append(('lead', 'bool'))
        return cond_fn('round_trip', params, body_round, pre=pre,
                       consts={'supplemental': supplemental, 'two': two, 'maxrun': maxrun,
                               'lead': True})
    return make


def conditions(tier):
    q = tier == 'quick'
    L = 8 if q else 11
    mr = 2 if q else 3
    from . import c01
    cs = [
        Cond('diff_primary', make=make_diff(L, False), replay=std_replay(body_diff),
             timeout=300 if q else 2400, modules=('plot', 'io'),
             doc='primary segment, symbolic string <= %d chars over {/,a,b}, delimiter = first '
                 'char; parser == left-to-right reference or ValueError' % L),
        Cond('diff_supplemental', make=make_diff(L - 1, True), replay=std_replay(body_diff),
             timeout=300 if q else 2400, modules=('plot', 'io'),
             doc='supplemental segment, delimiter symbolic, optional leading delimiter'),
        Cond('diff_primary_explicit_delim', make=make_diff(L - 2, False, True),
             replay=std_replay(body_diff), timeout=300 if q else 2400, modules=('plot', 'io'),
             doc='primary segment with the delimiter passed explicitly: a segment that does not '
                 'start with it is refused'),
        Cond('round_primary', make=make_round(mr, False, True), replay=std_replay(body_round),
             timeout=300 if q else 1800, modules=('plot', 'io'),
             doc='encode/decode of tokens with interior and trailing delimiter runs'),
        Cond('round_supplemental', make=make_round(mr, True, False),
             replay=std_replay(body_round), timeout=300 if q else 1800, modules=('plot', 'io'),
             doc='same, supplemental with and without leading delimiter'),
    ]
    cs += [c for c in c01.layout_conditions(tier) if c.name.startswith('fcsfile_text')]
    return cs
