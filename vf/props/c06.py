"""C06 - MEF conversion applies each channel's own standard curve, or refuses."""
from ..driver import Cond
from ..harness import H, Reject, catch, cond_fn
from .. import ch
from ..symnp.scalars import TermT
from .common import meta_of, is_sample, std_replay

INFO = {
    'explanation': 'Bounded symbolic execution (CrossHair) of the real source of '
                   'FlowCal.transform.to_mef on the symnp model in the free term algebra: event '
                   'values are opaque atoms and the k standard curves are distinct uninterpreted '
                   'function symbols, so an equality proved between result cells and '
                   'sc_pi(c)(x) holds for every interpretation of the curves.  The (curve, '
                   'channel) pairing, its order, name/position spelling, the requested subset '
                   'and its order, an uncovered request and unequal list lengths are symbolic.',
    'functions': ['FlowCal.transform.to_mef', 'FlowCal.io.FCSData._name_to_index',
                  'functools.partial built in FlowCal.mef.get_transform_fxn (via C02)'],
    'bounds': {'quick': {'shape': '2 events x 4 channels', 'curves': 'k in 1..3 (injective '
                         'channel list of positions/names)', 'request': 'None, int, name or list '
                         'of <= 3'},
               'thorough': {}},
    'outside': ['negative channel positions', 'duplicated channels in a request'],
    'stubs': ['standard curves: uninterpreted functions sc_i applied element-wise'],
    'assumptions': ['astype(float64) of an atom is the same atom (bit-identity of unconverted '
                    'channels is judged on the float copy)'],
}

NAMES = ('FSC', 'FL1', 'FL2', 'FL3')
D = 4


def mk_curve(B, i):
    """i-th standard curve: array/scalar -> element-wise sc_i(.) (model: free terms; real: a
    distinct strictly increasing affine map so that a wrong pairing is visible)."""
    if B.kind == 'model':
        np = B.np

        def sc(x):
            if isinstance(x, np.ndarray):
                return np.array([TermT('sc%d' % i, e) for e in x._elems()]).reshape(x.shape) \
                    if x.size else x.copy()
            return TermT('sc%d' % i, getattr(x, 'v', x))
        return sc
    return lambda x: x * (1000.0 * (i + 1)) + (i + 1)


def apply_curve(B, i, v):
    if B.kind == 'model':
        return TermT('sc%d' % i, v)
    return v * (1000.0 * (i + 1)) + (i + 1)


def body_mef(B, I):
    as_sample = I['as_sample']
    k = ch.pick(I['k'], 1, 4)
    # injective list of covered channels (positions 0..3), possibly spelled by name
    perm_idx = ch.pick(I['perm'], 0, 6)
    import itertools
    perm = list(itertools.permutations((0, 2, 3)))[perm_idx]
    sc_pos = list(perm[:k])
    bn = I['byname']          # 0: positions, 1: names, 2: mixed
    byname = [(bn == 1) or (bn == 2 and j % 2 == 0) for j in range(3)]
    if not as_sample and any(byname):
        raise Reject()
    sc_channels = [NAMES[p] if byname[j] else p for j, p in enumerate(sc_pos)]
    nlist = k + (ch.pick(I['extra'], 0, 2) if I['mismatch'] else 0) - (0)
    sc_list = [mk_curve(B, j) for j in range(nlist)]
    # request
    rq = ch.pick(I['rq'], 0, 7)
    r1, r2, r3 = ch.pick(I['r1'], 0, D), ch.pick(I['r2'], 0, D), ch.pick(I['r3'], 0, D)
    rn = I['rname']
    if not as_sample and rn:
        raise Reject()
    spell = (lambda p: NAMES[p]) if rn else (lambda p: p)
    if rq == 0:
        request, req_pos = None, list(sc_pos)
    elif rq == 1:
        request, req_pos = spell(r1), [r1]
    elif rq == 2:
        request, req_pos = [spell(r1)], [r1]
    elif rq == 3:
        if r1 == r2:
            raise Reject()
        request, req_pos = [spell(r1), r2], [r1, r2]
    elif rq == 4:
        if len({r1, r2, r3}) != 3:
            raise Reject()
        request, req_pos = [r1, spell(r2), r3], [r1, r2, r3]
    elif rq == 5:
        request, req_pos = (spell(r1),), [r1]
    else:
        # negative spelling of a position: the column it names must be converted with its own
        # curve or the request refused - never passed through unconverted
        request, req_pos = r1 - D, [r1]
    if as_sample:
        vals = [[TermT('x', i, j) if B.kind == 'model' else float(10 * i + j + 1)
                 for j in range(D)] for i in range(2)]
        lo = [TermT('lo', j) if B.kind == 'model' else 0.0 for j in range(D)]
        hi = [TermT('hi', j) if B.kind == 'model' else 1023.0 + j for j in range(D)]
        meta = dict(channels=list(NAMES), range=[[lo[j], hi[j]] for j in range(D)],
                    amplification_type=[(0.0, 0.0)] * D, resolution=[1024] * D)
        data = B.sample(vals, 'float64' if B.kind == 'real' else 'object', **meta)
        if B.kind == 'model':
            data._dtype = B.np.dtype('float64')
    else:
        vals = [[TermT('x', i, j) if B.kind == 'model' else float(10 * i + j + 1)
                 for j in range(D)] for i in range(2)]
        data = B.arr(vals, 'float64' if B.kind == 'real' else 'object')
        if B.kind == 'model':
            data._dtype = B.np.dtype('float64')
    before = meta_of(data) if as_sample else None
    res = catch(B.FC.transform.to_mef, data, request, sc_list, sc_channels)
    if nlist != k:
        H.mark('length-mismatch')
        return (res[0] == 'exc' and res[1] == 'ValueError'), \
            'to_mef: different numbers of curves and channels accepted'
    uncovered = [p for p in req_pos if p not in sc_pos]
    if rq == 6 and not uncovered and nlist == k:
        H.mark('negative-position')
        if res[0] == 'exc':
            return res[1] == 'ValueError', 'to_mef: negative position raised %s' % res[1]
        got = B.tolist(res[1])
        j = req_pos[0]
        for i in range(2):
            if not B.close(got[i][j], apply_curve(B, sc_pos.index(j), vals[i][j])):
                return False, 'to_mef: requested channel passed through unconverted'
        return True
    if uncovered:
        H.mark('uncovered')
        return (res[0] == 'exc' and res[1] == 'ValueError'), \
            'to_mef: request for a channel without standard curve not refused'
    if res[0] != 'ok':
        return False, 'to_mef: unexpected %s' % res[1], res[2]
    out = res[1]
    rows = B.tolist(out)
    H.mark('converted-%d' % len(req_pos))
    for i in range(2):
        for j in range(D):
            if j in req_pos:
                exp = apply_curve(B, sc_pos.index(j), vals[i][j])
                if not B.close(rows[i][j], exp):
                    return False, 'to_mef: channel not converted with its own standard curve'
            elif not B.close(rows[i][j], vals[i][j], 0.0):
                return False, 'to_mef: unrequested channel changed'
    if as_sample:
        if not is_sample(B, out):
            return False, 'to_mef: result is not a sample'
        after = meta_of(out)
        for f in before:
            if f != '_range' and after[f] != before[f]:
                return False, 'to_mef: non-range metadata changed (%s)' % f
        if meta_of(data) != before:
            return False, 'to_mef: input sample changed'
        rng = out.range()
        for j in range(D):
            if j in req_pos:
                ci = sc_pos.index(j)
                if not (B.close(rng[j][0], apply_curve(B, ci, lo[j])) and
                        B.close(rng[j][1], apply_curve(B, ci, hi[j]))):
                    return False, 'to_mef: range of converted channel is not the converted limits'
            elif not (B.close(rng[j][0], lo[j], 0.0) and B.close(rng[j][1], hi[j], 0.0)):
                return False, 'to_mef: range of unconverted channel changed'
    return True


def make_mef(as_sample, rq, bn):
    def make(env):
        params = [('k', 'int'), ('perm', 'int')]
        pre = ['1 <= k <= 3', '0 <= perm <= 5']
        consts = {'as_sample': as_sample, 'rq': rq, 'byname': bn, 'mismatch': False, 'extra': 0,
                  'r1': 0, 'r2': 1, 'r3': 2, 'rname': False}
        if rq == 0:
            params += [('mismatch', 'bool'), ('extra', 'int')]
            pre.append('0 <= extra <= 1')
            consts.pop('mismatch')
            consts.pop('extra')
        nr = {0: 0, 1: 1, 2: 1, 3: 2, 4: 3, 5: 1, 6: 1}[rq]
        for nm in ('r1', 'r2', 'r3')[:nr]:
            params.append((nm, 'int'))
            pre.append('0 <= %s <= 3' % nm)
            consts.pop(nm)
        if nr and as_sample and rq != 6:
            params.append(('rname', 'bool'))
            consts.pop('rname')
        return cond_fn('to_mef', params, body_mef, pre=pre, consts=consts)
    return make


def conditions(tier):
    q = tier == 'quick'
    mods = ('plot', 'io', 'transform')
    cs = []
    for as_sample, bn in ((True, 0), (True, 1), (True, 2), (False, 0)):
        for rq in range(7):
            cs.append(Cond('to_mef_%s_sc%s_rq%d' % ('sample' if as_sample else 'array',
                                                    ('pos', 'names', 'mixed')[bn], rq),
                           make=make_mef(as_sample, rq, bn), replay=std_replay(body_mef),
                           timeout=600 if q else 1800, modules=mods,
                           doc='request form %d (None,int/name,[one],[two],[three],(tuple),negative position): '
                               'requested and covered cells == sc_pi(c)(x), others identical, '
                               'metadata, range; uncovered request or unequal lengths -> '
                               'ValueError' % rq))
    return cs
