"""C11 - in a batch, a failing row is reported in place and does not affect other rows."""
import collections
import os
import warnings

from ..driver import Cond
from ..harness import H, Reject, catch, cond_fn
from .. import ch
from .. import minipandas as mpd
from ..symnp.scalars import TermT
from .common import std_replay
from . import c10
from .c10 import World, Sample, install, restore, instruments_table, INSTR, GATED_N

INFO = {
    'explanation': 'Same free-term execution of the real excel_ui orchestrators as C10, plus fault '
                   'injection as solver choices: every row of a 3-row sample table (2-row bead '
                   'table) carries a symbolic fault kind among the documented ones (file not '
                   'found, < 400 events, gate fraction outside [0,1], unrecognised units, '
                   'calibration missing for the beads / for the channel, beads on another '
                   'instrument, other amplification type, other detector voltage, unequal MEF '
                   'value counts); the fault vector is fully symbolic.  Postconditions: the call '
                   'returns; keys are the row ids in table order; a faulty row maps to an '
                   'ExcelUIException; every healthy row equals the result of processing it in a '
                   'single-row table; the statistics tables show ERROR notes with empty '
                   'statistics; an empty table gives an empty result.',
    'functions': ['FlowCal.excel_ui.process_samples_table', 'FlowCal.excel_ui.process_beads_table',
                  'FlowCal.excel_ui.add_samples_stats', 'FlowCal.excel_ui.add_beads_stats'],
    'bounds': {'quick': {'sample rows': 3, 'bead rows': 2, 'fault kinds': '10 (samples), 5 (beads)'},
               'thorough': {}},
    'outside': ['pandas/openpyxl I/O', 'numeric content of the steps'],
    'stubs': ['as C10; gate.density2d stub raises the library\'s ValueError for a fraction '
              'outside [0,1]'],
    'assumptions': [],
}

F_NONE, F_NOFILE, F_FEW, F_GATE, F_UNITS, F_NOCAL, F_NOCURVE, F_INSTR, F_AMP, F_VOLT = range(10)
NF = 10
BAD_UNITS = ['furlongs', 'RF', ' ', 'ME', 'Chan']


def sample_row(k, fault, I):
    """Row k of the samples table with the given fault injected."""
    row = {'ID': 'S%d' % (k + 1), 'Instrument ID': 'I1', 'File Path': 's%d.fcs' % (k + 1),
           'Gate Fraction': 0.3 + 0.1 * k, 'Beads ID': 'B1', 'FL1 Units': 'MEF',
           'FL2 Units': ['RFI', 'MEF', None, 'a.u.'][k % 4], 'GFP Units': None}
    # (row 2 calibrates two channels, row 3 reports FL1 only: rows with different reported
    # channels make any state carried from one row to the next observable in the events, not
    # only in the call sequence)
    if fault == F_NOFILE:
        row['File Path'] = 'missing%d.fcs' % k
    elif fault == F_GATE:
        row['Gate Fraction'] = [1.5, -0.1, 2.0, -3.0][k % 4]
    elif fault == F_UNITS:
        row['FL%d Units' % (1 + k % 2)] = BAD_UNITS[ch.pick(I['bu'], 0, len(BAD_UNITS))] \
            if ch.var_of(I['bu']) is not None else BAD_UNITS[I['bu']]
    elif fault == F_NOCAL:
        row['Beads ID'] = 'B0'          # bead row whose calibration is None
    elif fault == F_NOCURVE:
        row['FL2 Units'] = 'MEF'
        row['Beads ID'] = 'B2'          # calibration that covers FL1 only
    elif fault == F_INSTR:
        row['Beads ID'] = 'B3'          # beads acquired on the other instrument
    return row


def files_for(rows, faults):
    files = {}
    for k, (row, f) in enumerate(zip(rows, faults)):
        name = 's%d.fcs' % (k + 1)
        files[name] = dict(missing=False, n=399 if f == F_FEW else 4000 + k, data_type='I',
                           amp_log={'FL1': True, 'FL2': True},
                           voltage={'FL1': 500, 'FL2': 600})
        mef_chs = [c for c in ('FL1', 'FL2') if str(row.get(c + ' Units')).strip().lower() == 'mef']
        tgt = mef_chs[-1] if mef_chs else 'FL1'       # the LAST calibrated channel of the row
        if f == F_AMP:
            files[name]['amp_log'] = {'FL1': True, 'FL2': True, tgt: False}
        if f == F_VOLT:
            files[name]['voltage'] = {'FL1': 500, 'FL2': 600, tgt: 777}
    return files


def beads_info_table():
    ids = ['B0', 'B1', 'B2', 'B3']
    return mpd.DataFrame({'Instrument ID': ['I1', 'I1', 'I1', 'I2'],
                          'FL1 Amp. Type': ['Log'] * 4, 'FL2 Amp. Type': ['Log'] * 4,
                          'FL1 Detector Volt.': [500] * 4, 'FL2 Detector Volt.': [600] * 4},
                         index=mpd.Index(ids, 'ID'))


def calibrations(world, ns):
    bg = Sample(world, TermT('beads-gated'), GATED_N, 'I', 'b.fcs')
    both = ns.mef.get_transform_fxn(bg, [[0, 10], [0, 20]], ['FL1', 'FL2'],
                                    clustering_channels=['FL1'])
    only1 = ns.mef.get_transform_fxn(bg, [[0, 10]], ['FL1'], clustering_channels=['FL1'])
    return {'B0': None, 'B1': both, 'B2': only1, 'B3': both}


def run_samples(B, rows, files):
    world = World(B, files)
    table = c10.mk_samples_table(rows)
    saved = install(B, world)
    try:
        fx = calibrations(world, B.FC.excel_ui.FlowCal)
        r = catch(B.FC.excel_ui.process_samples_table, table, instruments_table(),
                  mef_transform_fxns=fx, beads_table=beads_info_table(), base_dir='.',
                  verbose=False, plot=False)
        stats = None
        if r[0] == 'ok':
            with warnings.catch_warnings(record=True):
                warnings.simplefilter('always')
                stats = catch(B.FC.excel_ui.add_samples_stats, table, r[1])
    finally:
        restore(B, saved)
    return r, stats, table


def body_samples(B, I):
    if B.kind == 'real':
        return replay_samples(B, I)
    nrows = I['nrows']
    faults = [I['f0']] + [ch.pick(I['f%d' % k], 0, NF) for k in range(1, nrows)]
    rows = [sample_row(k, faults[k], I) for k in range(nrows)]
    files = files_for(rows, faults)
    r, stats, table = run_samples(B, rows, files)
    if r[0] != 'ok':
        return False, 'batch aborted: process_samples_table raised %s' % r[1], r[2]
    res = r[1]
    if list(res.keys()) != [row['ID'] for row in rows]:
        return False, 'results are not keyed by the row identifiers in table order'
    Exc = B.FC.excel_ui.ExcelUIException
    for k, row in enumerate(rows):
        got = res[row['ID']]
        if faults[k] != F_NONE:
            H.mark('fault%d' % faults[k])
            if not isinstance(got, Exc):
                return False, 'documented row fault %d not recorded as that row\'s error' % faults[k]
        else:
            if isinstance(got, Exc):
                return False, 'healthy row became an error: %s' % (got,)
            alone, _, _ = run_samples(B, [row], files)
            if alone[0] != 'ok' or isinstance(alone[1][row['ID']], Exc) or \
                    alone[1][row['ID']].term != got.term:
                return False, 'healthy row differs from its single-row result'
    if stats is None or stats[0] != 'ok':
        return False, 'add_samples_stats raised', str(stats)
    for k, row in enumerate(rows):
        note = table.cell(row['ID'], 'Analysis Notes')
        if faults[k] != F_NONE:
            if not (isinstance(note, str) and note.startswith('ERROR: ')) or \
                    not mpd.isnull(table.cell(row['ID'], 'Number of Events')) or \
                    not mpd.isnull(table.cell(row['ID'], 'FL1 Mean')):
                return False, 'error row not shown as ERROR note with empty statistics'
        elif isinstance(note, str) and note.startswith('ERROR'):
            return False, 'healthy row shown as error'
    return True


def make_samples(f0, nrows):
    def make(env):
        params = [('f%d' % k, 'int') for k in range(1, nrows)] + [('bu', 'int')]
        pre = ['0 <= f%d < %d' % (k, NF) for k in range(1, nrows)] + \
              ['0 <= bu < %d' % len(BAD_UNITS)]
        return cond_fn('xl_faults', params, body_samples, pre=pre,
                       consts={'f0': f0, 'nrows': nrows})
    return make


def body_empty(B, I):
    if B.kind == 'real':
        return True
    world = World(B, {})
    xl = B.FC.excel_ui
    saved = install(B, world)
    try:
        t = c10.mk_samples_table([])
        r = catch(xl.process_samples_table, t, instruments_table(), mef_transform_fxns={})
        bt = mpd.DataFrame({'Instrument ID': [], 'File Path': []}, index=mpd.Index([], 'ID'))
        rb = catch(xl.process_beads_table, bt, instruments_table())
    finally:
        restore(B, saved)
    if r[0] != 'ok' or len(r[1]) != 0:
        return False, 'empty samples table does not give an empty result'
    if rb[0] != 'ok' or len(rb[1][0]) != 0 or len(rb[1][1]) != 0:
        return False, 'empty beads table does not give an empty result'
    return True


def make_empty(env):
    return cond_fn('xl_empty', [], body_empty)


# ------------------------------------------------------------------ bead rows

B_NONE, B_NOFILE, B_FEW, B_GATE, B_MEFCOUNT = range(5)


def bead_row(k, fault):
    row = {'ID': 'B%d' % (k + 1), 'Instrument ID': 'I1', 'File Path': 'b%d.fcs' % (k + 1),
           'Gate Fraction': 0.4, 'Clustering Channels': 'FL1', 'FL1 MEF Values': '0, 10, 20',
           'FL2 MEF Values': '0, 5, 9'}
    if fault == B_NOFILE:
        row['File Path'] = 'nob%d.fcs' % k
    elif fault == B_GATE:
        row['Gate Fraction'] = 1.2
    elif fault == B_MEFCOUNT:
        row['FL2 MEF Values'] = '0, 5'
    return row


def body_beads(B, I):
    if B.kind == 'real':
        return replay_beads(B, I)
    faults = [ch.pick(I['g0'], 0, 5), ch.pick(I['g1'], 0, 5)]
    rows = [bead_row(k, faults[k]) for k in range(2)]
    files = {'b%d.fcs' % (k + 1): dict(missing=False, n=399 if faults[k] == B_FEW else 3000,
                                       data_type='I') for k in range(2)}
    world = World(B, files)
    cols = ['Instrument ID', 'File Path', 'Gate Fraction', 'Clustering Channels',
            'FL1 MEF Values', 'FL2 MEF Values']
    bt = mpd.DataFrame({c: [r[c] for r in rows] for c in cols},
                       index=mpd.Index([r['ID'] for r in rows], 'ID'))
    xl = B.FC.excel_ui
    saved = install(B, world)
    try:
        r = catch(xl.process_beads_table, bt, instruments_table(), base_dir='.', verbose=False,
                  plot=False, full_output=True)
        st = None
        if r[0] == 'ok':
            st = catch(xl.add_beads_stats, bt, r[1][0], r[1][2])
    finally:
        restore(B, saved)
    if r[0] != 'ok':
        return False, 'batch aborted: process_beads_table raised %s' % r[1], r[2]
    beads, fxns, outs = r[1]
    if list(beads.keys()) != ['B1', 'B2']:
        return False, 'bead results are not keyed by the row identifiers in table order'
    for k in range(2):
        rid = 'B%d' % (k + 1)
        if faults[k] != B_NONE:
            H.mark('bfault%d' % faults[k])
            if not isinstance(beads[rid], xl.ExcelUIException) or fxns[rid] is not None:
                return False, 'documented bead-row fault %d not recorded as that row\'s error' \
                    % faults[k]
        elif isinstance(beads[rid], xl.ExcelUIException) or fxns[rid] is None:
            return False, 'healthy bead row became an error'
    if st is None or st[0] != 'ok':
        return False, 'add_beads_stats raised', str(st)
    for k in range(2):
        rid = 'B%d' % (k + 1)
        note = bt.cell(rid, 'Analysis Notes')
        if (faults[k] != B_NONE) != (isinstance(note, str) and note.startswith('ERROR: ')):
            return False, 'bead error row not shown as ERROR note'
    return True


def make_beads(env):
    return cond_fn('xl_bead_faults', [('g0', 'int'), ('g1', 'int')], body_beads,
                   pre=['0 <= g0 <= 4 and 0 <= g1 <= 4'])


# ------------------------------------------------------------------ real replays

def _real_files(tmp, rows, faults):
    import numpy as rnp
    from . import fcsgen
    files = files_for(rows, faults)
    for name, f in files.items():
        n = f['n'] if f['n'] < 400 else 900
        ev = c10.real_events(n, 4, 5, 1024)
        ov = {}
        for j, c in ((3, 'FL1'), (4, 'FL2')):
            ov['$P%dE' % j] = '4,1' if f['amp_log'].get(c) else '0,0'
            ov['$P%dV' % j] = str(f['voltage'].get(c))
        blob, _ = fcsgen.build_fcs(ev, [16] * 4, names=['FSC', 'SSC', 'FL1', 'FL2'],
                                   ranges=[1024] * 4, overrides=ov)
        open(os.path.join(tmp, name), 'wb').write(blob)


def replay_samples(B, I):
    import functools
    import shutil
    import tempfile
    import pandas as pd
    FC = B.FC
    xl = FC.excel_ui
    nrows = I['nrows']
    faults = [I['f0']] + [I['f%d' % k] for k in range(1, nrows)]
    rows = [sample_row(k, faults[k], I) for k in range(nrows)]
    tmp = tempfile.mkdtemp()
    try:
        _real_files(tmp, rows, faults)
        itab = pd.DataFrame({c: [INSTR[i][c] for i in INSTR] for c in INSTR['I1']},
                            index=pd.Index(list(INSTR), name='ID'))
        cols = ['Instrument ID', 'File Path', 'Gate Fraction', 'Beads ID', 'FL1 Units',
                'FL2 Units', 'GFP Units']
        stab = pd.DataFrame({c: [r.get(c) for r in rows] for c in cols},
                            index=pd.Index([r['ID'] for r in rows], name='ID'))
        bi = beads_info_table()
        btab = pd.DataFrame({c: bi._data[c] for c in bi.columns},
                            index=pd.Index(bi.index.values, name='ID'))
        sc = lambda x: 2.0 * x + 1.0
        both = functools.partial(FC.transform.to_mef, sc_list=[sc, sc], sc_channels=['FL1', 'FL2'])
        only1 = functools.partial(FC.transform.to_mef, sc_list=[sc], sc_channels=['FL1'])
        fx = {'B0': None, 'B1': both, 'B2': only1, 'B3': both}
        with warnings.catch_warnings():
            warnings.simplefilter('ignore')
            r = catch(xl.process_samples_table, stab, itab, mef_transform_fxns=fx,
                      beads_table=btab, base_dir=tmp, verbose=False, plot=False)
        if r[0] != 'ok':
            return False, 'batch aborted: process_samples_table raised %s' % r[1], r[2]
        res = r[1]
        if list(res.keys()) != [row['ID'] for row in rows]:
            return False, 'results are not keyed by the row identifiers in table order'
        for k, row in enumerate(rows):
            got = res[row['ID']]
            if faults[k] != F_NONE and not isinstance(got, xl.ExcelUIException):
                return False, 'documented row fault %d not recorded as that row\'s error' % faults[k]
            if faults[k] == F_NONE and isinstance(got, xl.ExcelUIException):
                return False, 'healthy row became an error: %s' % (got,)
            if faults[k] == F_NONE:
                import numpy as rnp
                with warnings.catch_warnings():
                    warnings.simplefilter('ignore')
                    alone = catch(xl.process_samples_table, stab.loc[[row['ID']]], itab,
                                  mef_transform_fxns=fx, beads_table=btab, base_dir=tmp,
                                  verbose=False, plot=False)
                a = alone[1].get(row['ID']) if alone[0] == 'ok' else None
                if a is None or isinstance(a, xl.ExcelUIException) or a.shape != got.shape or \
                        not rnp.array_equal(rnp.asarray(a), rnp.asarray(got)) or \
                        a.channels != got.channels or a.range() != got.range():
                    return False, 'healthy row differs from its single-row result'
        return True
    finally:
        shutil.rmtree(tmp, ignore_errors=True)


def replay_beads(B, I):
    import shutil
    import tempfile
    import pandas as pd
    from . import fcsgen
    FC = B.FC
    xl = FC.excel_ui
    faults = [I['g0'], I['g1']]
    rows = [bead_row(k, faults[k]) for k in range(2)]
    tmp = tempfile.mkdtemp()
    try:
        for k in range(2):
            n = 399 if faults[k] == B_FEW else 900
            ev = c10.real_events(n, 4, 9 + k, 1024)
            blob, _ = fcsgen.build_fcs(ev, [16] * 4, names=['FSC', 'SSC', 'FL1', 'FL2'],
                                       ranges=[1024] * 4)
            open(os.path.join(tmp, 'b%d.fcs' % (k + 1)), 'wb').write(blob)
        itab = pd.DataFrame({c: [INSTR[i][c] for i in INSTR] for c in INSTR['I1']},
                            index=pd.Index(list(INSTR), name='ID'))
        cols = ['Instrument ID', 'File Path', 'Gate Fraction', 'Clustering Channels',
                'FL1 MEF Values', 'FL2 MEF Values']
        bt = pd.DataFrame({c: [r[c] for r in rows] for c in cols},
                          index=pd.Index([r['ID'] for r in rows], name='ID'))
        saved = FC.mef.get_transform_fxn
        FC.mef.get_transform_fxn = lambda *a, **kw: (lambda s, c: s)
        try:
            with warnings.catch_warnings():
                warnings.simplefilter('ignore')
                r = catch(xl.process_beads_table, bt, itab, base_dir=tmp, verbose=False,
                          plot=False)
        finally:
            FC.mef.get_transform_fxn = saved
        if r[0] != 'ok':
            return False, 'batch aborted: process_beads_table raised %s' % r[1], r[2]
        beads, fxns = r[1][0], r[1][1]
        for k in range(2):
            rid = 'B%d' % (k + 1)
            if (faults[k] != B_NONE) != isinstance(beads[rid], xl.ExcelUIException):
                return False, 'documented bead-row fault %d not recorded as that row\'s error' \
                    % faults[k]
        return True
    finally:
        shutil.rmtree(tmp, ignore_errors=True)


def conditions(tier):
    q = tier == 'quick'
    mods = ('plot', 'io', 'transform', 'stats', 'gate', 'mef', 'excel_ui')
    nrows = 3 if q else 4
    cs = [Cond('sample_faults_f%d' % f0, make=make_samples(f0, nrows),
               replay=std_replay(body_samples), timeout=900 if q else 3000, modules=mods,
               pandas=True,
               doc='%d-row sample table, first row fault kind %d, other rows symbolic over the 10 '
                   'kinds: returns, keys in order, faulty rows -> ExcelUIException, healthy rows '
                   '== single-row results, ERROR notes with empty statistics' % (nrows, f0))
          for f0 in range(NF)]
    cs.append(Cond('bead_faults', make=make_beads, replay=std_replay(body_beads), timeout=600,
                   modules=mods, pandas=True,
                   doc='2-row bead table, fault kinds {none, file missing, <400 events, gate '
                       'fraction, unequal MEF counts}'))
    cs.append(Cond('empty_tables', make=make_empty, replay=std_replay(body_empty), timeout=60,
                   modules=mods, pandas=True, doc='empty tables give empty results'))
    return cs
