"""Stand-ins for the third-party libraries underneath FlowCal (scipy, skimage,
sklearn, matplotlib, openpyxl, tkinter).  Every entry point that matters to a
property is a *hook*: the harness installs a nondeterministic or modelled
implementation constrained only by the documented contract; an uninstalled hook
raises ModelGap so that a check can never silently pass through unmodelled code.
"""
import types

from .symnp.core import ModelGap


class Hooks(object):
    """Per-environment table of environment stubs."""

    def __init__(self):
        self.table = {}
        self.calls = []

    def set(self, name, fn):
        self.table[name] = fn

    def call(self, name, *a, **kw):
        fn = self.table.get(name)
        if fn is None:
            raise ModelGap('environment stub %s not installed' % name)
        self.calls.append(name)
        return fn(*a, **kw)


def _mod(name, **attrs):
    m = types.ModuleType(name)
    m.__dict__.update(attrs)
    return m


class _Recorder(object):
    """Object that accepts any attribute access / call and records nothing."""

    def __init__(self, name='obj'):
        object.__setattr__(self, '_name', name)

    def __getattr__(self, k):
        if k.startswith('__') and k.endswith('__'):
            raise AttributeError(k)
        return _Recorder(self._name + '.' + k)

    def __setattr__(self, k, v):
        return None

    def __call__(self, *a, **kw):
        return _Recorder(self._name + '()')

    def __iter__(self):
        return iter(())

    def __getitem__(self, k):
        return _Recorder(self._name + '[]')

    def __setitem__(self, k, v):
        return None


def build(hooks, np):
    """-> dict of module name -> module object (the sys.modules overlay)."""
    mods = {}

    # ---- scipy
    def gaussian_filter(H, sigma=1.0, order=0, output=None, mode='reflect', cval=0.0,
                        truncate=4.0, **kw):
        return hooks.call('gaussian_filter', H, sigma=sigma, order=order, mode=mode, cval=cval,
                          truncate=truncate)
    filters = _mod('scipy.ndimage.filters', gaussian_filter=gaussian_filter)
    ndimage = _mod('scipy.ndimage', filters=filters, gaussian_filter=gaussian_filter)

    def minimize(fun, x0, args=(), method=None, bounds=None, options=None, **kw):
        return hooks.call('minimize', fun, x0, args=args, method=method, bounds=bounds,
                          options=options, **kw)

    def root(fun, x0, args=(), **kw):
        return hooks.call('root', fun, x0, args=args, **kw)
    optimize = _mod('scipy.optimize', minimize=minimize, root=root)

    def gmean(a, axis=0, **kw):
        return hooks.call('gmean', a, axis=axis)

    def mode(a, axis=0, **kw):
        return hooks.call('mode', a, axis=axis)
    stats = _mod('scipy.stats', gmean=gmean, mode=mode)

    def solve(a, b, **kw):
        return hooks.call('linalg_solve', a, b, **kw)
    linalg = _mod('scipy.linalg', solve=solve)
    scipy = _mod('scipy', ndimage=ndimage, optimize=optimize, stats=stats, linalg=linalg,
                 __version__='1.18.1')
    mods.update({'scipy': scipy, 'scipy.ndimage': ndimage, 'scipy.ndimage.filters': filters,
                 'scipy.optimize': optimize, 'scipy.stats': stats, 'scipy.linalg': linalg})

    # ---- skimage
    def find_contours(image, level=None, **kw):
        return hooks.call('find_contours', image, level)
    measure = _mod('skimage.measure', find_contours=find_contours)
    mods.update({'skimage': _mod('skimage', measure=measure), 'skimage.measure': measure})

    # ---- sklearn
    class GaussianMixture(object):
        def __init__(self, **kw):
            self.kw = kw

        def fit(self, data):
            return hooks.call('gmm_fit', self, data)

        def predict_proba(self, data):
            return hooks.call('gmm_predict_proba', self, data)
    mixture = _mod('sklearn.mixture', GaussianMixture=GaussianMixture)
    mods.update({'sklearn': _mod('sklearn', __version__='1.9.1', mixture=mixture),
                 'sklearn.mixture': mixture})

    # ---- matplotlib
    class Transform(object):
        input_dims = None
        output_dims = None
        is_separable = False

        def __init__(self, shorthand_name=None):
            self._shorthand_name = shorthand_name

    def nonsingular(vmin, vmax, expander=0.001, tiny=1e-15, increasing=True):
        return vmin, vmax
    transforms = _mod('matplotlib.transforms', Transform=Transform, nonsingular=nonsingular)

    class ScaleBase(object):
        def __init__(self, axis=None):
            pass
    registered = []
    scale = _mod('matplotlib.scale', ScaleBase=ScaleBase,
                 register_scale=lambda cls: registered.append(cls))

    class Locator(object):
        def raise_if_exceeds(self, locs):
            return locs

        def set_params(self, **kw):
            pass

    class MaxNLocator(Locator):
        default_params = dict(nbins=10, steps=None, integer=False, symmetric=False, prune=None,
                              min_n_ticks=2)

        def __init__(self, *a, **kw):
            pass

        def tick_values(self, vmin, vmax):
            return hooks.call('MaxNLocator.tick_values', self, vmin, vmax)

    class LogLocator(Locator):
        def __init__(self, *a, **kw):
            pass

        def tick_values(self, vmin, vmax):
            return hooks.call('LogLocator.tick_values', self, vmin, vmax)

    class _Formatter(object):
        def __init__(self, *a, **kw):
            pass

        def __call__(self, x, pos=None):
            return str(x)
    ticker = _mod('matplotlib.ticker', Locator=Locator, MaxNLocator=MaxNLocator,
                  LogLocator=LogLocator,
                  ScalarFormatter=type('ScalarFormatter', (_Formatter,), {}),
                  LogFormatterSciNotation=type('LogFormatterSciNotation', (_Formatter,), {}))
    pyplot = _Recorder('plt')

    class _Pyplot(types.ModuleType):
        def __getattr__(self, k):
            if k.startswith('__'):
                raise AttributeError(k)

            def f(*a, **kw):
                r = hooks.table.get('plt.' + k)
                if r is not None:
                    return r(*a, **kw)
                return _Recorder('plt.' + k + '()')
            return f
    pyplot = _Pyplot('matplotlib.pyplot')
    pyplot.get_cmap = lambda name=None: (lambda level: (0.0, 0.0, 0.0, 1.0))
    font_manager = _mod('matplotlib.font_manager', FontProperties=_Recorder('FontProperties'))
    matplotlib = _mod('matplotlib', __version__='3.11.2', transforms=transforms, scale=scale,
                      ticker=ticker, pyplot=pyplot, font_manager=font_manager,
                      _vf_registered_scales=registered)
    mplot3d = _mod('mpl_toolkits.mplot3d', Axes3D=_Recorder('Axes3D'))
    mods.update({'matplotlib': matplotlib, 'matplotlib.transforms': transforms,
                 'matplotlib.scale': scale, 'matplotlib.ticker': ticker,
                 'matplotlib.pyplot': pyplot, 'matplotlib.font_manager': font_manager,
                 'mpl_toolkits': _mod('mpl_toolkits', mplot3d=mplot3d),
                 'mpl_toolkits.mplot3d': mplot3d})

    # ---- GUI / Excel back ends (never executed by the checks)
    tk = _mod('tkinter', Tk=_Recorder('Tk'))
    fd = _mod('tkinter.filedialog', askopenfilename=_Recorder('askopenfilename'))
    tk.filedialog = fd
    ox_exc = _mod('openpyxl.utils.exceptions',
                  InvalidFileException=type('InvalidFileException', (Exception,), {}))
    ox_utils = _mod('openpyxl.utils', exceptions=ox_exc, get_column_letter=lambda i: 'A')
    mods.update({'tkinter': tk, 'tkinter.filedialog': fd,
                 'openpyxl': _mod('openpyxl', utils=ox_utils), 'openpyxl.utils': ox_utils,
                 'openpyxl.utils.exceptions': ox_exc})
    return mods
