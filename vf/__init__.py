"""Verification framework for taborlab/FlowCal: solver-based checking of the real
source, re-hosted on a pure-Python NumPy model (see /verif/DESIGN.md)."""
