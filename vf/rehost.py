"""Re-hosting: execute the *current source text* of /repo/FlowCal/*.py into fresh
module objects whose third-party imports resolve to models (symnp, stubs).

Nothing under /repo is modified; sources are re-read on every call, so the
encoding is regenerated from the working tree on every run.
"""
import hashlib
import os
import sys
import types

from . import stubs
from . import symnp

REPO = os.environ.get('VERIF_REPO', '/repo')

_ORDER = ('plot', 'io', 'transform', 'stats', 'gate', 'mef', 'excel_ui')


class Env(object):
    """A re-hosted FlowCal: env.FlowCal.io, env.np (= symnp), env.hooks."""
    kind = 'model'

    def __init__(self, modules=('plot', 'io', 'transform', 'stats', 'gate', 'mef'), repo=None,
                 pandas=None, shadow=None):
        self.repo = repo or REPO
        self.np = symnp
        self.hooks = stubs.Hooks()
        self.sources = {}
        self.overlay = stubs.build(self.hooks, symnp)
        self.overlay['numpy'] = symnp
        if pandas is not None:
            self.overlay['pandas'] = pandas
        pkg = types.ModuleType('FlowCal')
        pkg.__path__ = [os.path.join(self.repo, 'FlowCal')]
        pkg.__version__ = 'rehosted'
        self.FlowCal = pkg
        self.overlay['FlowCal'] = pkg
        for name in _ORDER:
            if name in modules:
                self._load(name, (shadow or {}).get(name, {}))

    def _load(self, name, shadow):
        path = os.path.join(self.repo, 'FlowCal', name + '.py')
        with open(path, 'r') as f:
            src = f.read()
        self.sources['FlowCal.' + name] = hashlib.sha1(src.encode()).hexdigest()
        mod = types.ModuleType('FlowCal.' + name)
        mod.__file__ = path
        mod.__dict__.update(shadow)          # shadowed builtins (float, int, open ...)
        code = compile(src, path, 'exec')
        saved = {}
        for k, v in self.overlay.items():
            saved[k] = sys.modules.get(k)
            sys.modules[k] = v
        try:
            sys.modules['FlowCal.' + name] = mod
            exec(code, mod.__dict__)
        finally:
            sys.modules.pop('FlowCal.' + name, None)
            for k, v in saved.items():
                if v is None:
                    sys.modules.pop(k, None)
                else:
                    sys.modules[k] = v
        setattr(self.FlowCal, name, mod)
        self.overlay['FlowCal.' + name] = mod
        return mod

    def shadow(self, module, **names):
        """Shadow builtins (float/int/open/...) for one re-hosted module."""
        getattr(self.FlowCal, module).__dict__.update(names)


class RealEnv(object):
    """The real, unmodified library on the real NumPy (replay / validation)."""
    kind = 'real'

    def __init__(self, repo=None):
        import importlib
        self.repo = repo or REPO
        for k in [k for k in sys.modules if k == 'FlowCal' or k.startswith('FlowCal.')]:
            del sys.modules[k]
        sys.path.insert(0, self.repo)
        try:
            import matplotlib
            matplotlib.use('Agg')
            self.FlowCal = importlib.import_module('FlowCal')
            for n in ('io', 'transform', 'stats', 'gate', 'mef', 'plot', 'excel_ui'):
                importlib.import_module('FlowCal.' + n)
        finally:
            sys.path.remove(self.repo)
        import numpy
        self.np = numpy
        self.hooks = None
