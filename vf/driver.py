"""Job scheduler, CrossHair runner, replay, known findings, evidence writer."""
import hashlib
import importlib
import inspect
import json
import multiprocessing as mp
import os
import random
import sys
import tempfile
import time
import traceback

HERE = os.path.dirname(os.path.dirname(os.path.abspath(__file__)))
EXIT_OK, EXIT_VIOLATION, EXIT_GAP, EXIT_HARNESS = 0, 1, 2, 3


class Cond(object):
    """One decidable obligation.

    kind 'crosshair': `make(env)` returns the contract-carrying function; `replay(B, cex)`
       re-runs the oracle on the real library -> (violated, what_fails_signature).
    kind 'direct'   : `run(env)` returns a result dict itself (direct z3 batches,
       model validation ...).
    """

    def __init__(self, name, kind='crosshair', make=None, replay=None, run=None, timeout=60,
                 modules=('plot', 'io', 'transform', 'stats', 'gate', 'mef'), setup=None,
                 doc='', max_iter=None, twin=False, pandas=False):
        self.name = name
        self.kind = kind
        self.make = make
        self.replay = replay
        self.run = run
        self.timeout = timeout
        self.modules = modules
        self.setup = setup
        self.doc = doc
        self.twin = twin
        self.pandas = pandas


# ------------------------------------------------------------------ worker side

class _SolverStats(object):
    queries = 0
    seconds = 0.0
    installed = False

    @classmethod
    def install(cls):
        if cls.installed:
            return
        import z3
        orig = z3.Solver.check

        def check(self, *a, **kw):
            t0 = time.perf_counter()
            try:
                return orig(self, *a, **kw)
            finally:
                cls.queries += 1
                cls.seconds += time.perf_counter() - t0
        z3.Solver.check = check
        cls.installed = True


def _run_crosshair(cond, fn, timeout):
    from crosshair.core_and_libs import analyze_function, run_checkables
    from crosshair.options import AnalysisOptionSet
    from crosshair.statespace import MessageType
    import crosshair.core as _cc
    if not getattr(_cc, '_vf_patched', False):
        _orig_choose = _cc.choose_type

        def choose_type(space, from_type, varname):
            # harness parameters are exactly int/bool/str/float: do not explore subclasses
            # of int (bool, IntEnum...) for an `int` parameter (x26 paths per parameter)
            if from_type in (int, float, str, bool):
                return from_type
            return _orig_choose(space, from_type, varname)
        _cc.choose_type = choose_type
        # CrossHair sometimes "prematurely realises" an argument (a bug-finding heuristic
        # implemented as a parallel fork).  Those branches are never needed for a
        # confirmation and only burn iterations: switch the heuristic off.
        from crosshair.statespace import StateSpace
        _orig_fp = StateSpace.fork_parallel

        def fork_parallel(self, false_probability, desc=''):
            if desc.startswith('premature realize'):
                return False
            return _orig_fp(self, false_probability, desc)
        StateSpace.fork_parallel = fork_parallel
        _cc._vf_patched = True
    opts = AnalysisOptionSet(per_condition_timeout=float(timeout), report_all=True,
                             per_path_timeout=30.0,
                             max_uninteresting_iterations=10 ** 9)
    checkables = analyze_function(fn, opts)
    msgs = list(run_checkables(checkables))
    out = []
    for m in msgs:
        out.append({'state': m.state.name, 'message': (m.message or '')[:2000]})
    return out


def _worker(prop_mod_name, cond_name, tier, repo, out_path, excluded):
    """Runs in a child process; writes a JSON result to out_path."""
    t0 = time.time()
    res = {'cond': cond_name, 'status': 'error', 'detail': '', 'paths': 0, 'paths_done': 0,
           'queries': 0, 'solver_s': 0.0, 'wall_s': 0.0, 'samples': [], 'marks': {},
           'sources': {}}
    try:
        os.environ['VERIF_REPO'] = repo
        sys.setrecursionlimit(10000)
        _SolverStats.install()
        from . import rehost, harness
        from .symnp.core import ModelGap
        mod = importlib.import_module(prop_mod_name)
        cond = [c for c in mod.conditions(tier) if c.name == cond_name][0]
        pandas_mod = None
        if cond.pandas:
            from . import minipandas
            pandas_mod = minipandas
        env = rehost.Env(modules=cond.modules, repo=repo, pandas=pandas_mod)
        res['sources'] = env.sources
        if cond.setup:
            cond.setup(env)
        fd, cex_path = tempfile.mkstemp(prefix='vfcex_', suffix='.json')
        os.close(fd)
        os.unlink(cex_path)
        harness.H.reset(env, cex_path)
        harness.H.excluded = tuple(excluded or ())
        if cond.kind == 'direct':
            r = cond.run(env)
            res.update(r)
        else:
            fn = cond.make(env)
            try:
                res['harness_source'] = inspect.getsource(fn)[:1500]
            except Exception:
                pass
            msgs = _run_crosshair(cond, fn, cond.timeout)
            st = harness.H.stats
            res.update({'paths': st['paths'], 'paths_done': st['paths_done'],
                        'rejected': st['rejected'], 'marks': st['marks'],
                        'samples': st['samples'], 'messages': msgs})
            states = [m['state'] for m in msgs]
            if os.path.exists(cex_path):
                raw = open(cex_path).read()
                os.unlink(cex_path)
                try:
                    cex = json.loads(raw)
                except ValueError:
                    cex = {'condition': cond.name, 'inputs': None, 'reals': {},
                           'detail': 'unreadable counterexample record',
                           'traceback': raw[:3000]}
                res['cex'] = cex
                if cex.get('traceback'):
                    res['status'] = 'error'
                    res['detail'] = cex['detail'] + '\n' + cex['traceback']
                else:
                    # replay on the real library
                    try:
                        real = rehost.RealEnv(repo)
                        B = harness.Backend(real)
                        harness.H.mode = 'replay'
                        harness.H.replay_inputs = cex
                        violated, what = cond.replay(B, cex)
                        harness.H.mode = 'decide'
                        if violated:
                            res['status'] = 'violation'
                            res['what'] = what
                        else:
                            res['status'] = 'cex_not_reproduced'
                            res['detail'] = 'model counterexample does not reproduce on the ' \
                                            'real library: model=%r (%s) real=%r inputs=%r' % (
                                                cex.get('detail'), cex.get('info'), what,
                                                cex.get('inputs'))
                    except Exception as e:
                        res['status'] = 'error'
                        res['detail'] = 'replay failed: %s\n%s' % (e, traceback.format_exc())
            elif any(s == 'POST_FAIL' for s in states):
                res['status'] = 'error'
                res['detail'] = 'POST_FAIL without recorded counterexample: %s' % msgs
            elif any(s in ('EXEC_ERR', 'SYNTAX_ERR', 'IMPORT_ERR', 'PRE_INVALID') for s in states):
                txt = ' '.join(m['message'] for m in msgs)
                if 'ModelGap' in txt:
                    res['status'] = 'modelgap'
                else:
                    res['status'] = 'error'
                res['detail'] = txt
            elif states and all(s == 'CONFIRMED' for s in states):
                res['status'] = 'confirmed'
            elif any(s == 'PRE_UNSAT' for s in states):
                res['status'] = 'inconclusive'
                res['detail'] = 'unable to meet precondition'
            elif not states:
                res['status'] = 'error'
                res['detail'] = 'CrossHair produced no verdict'
            else:
                res['status'] = 'inconclusive'
                res['detail'] = 'not confirmed within %ss (%s)' % (cond.timeout, states)
    except BaseException as e:
        from .symnp.core import ModelGap
        if isinstance(e, ModelGap):
            res['status'] = 'modelgap'
        else:
            res['status'] = 'error'
        res['detail'] = '%s: %s\n%s' % (type(e).__name__, e, traceback.format_exc())
    res['queries'] = _SolverStats.queries
    res['solver_s'] = round(_SolverStats.seconds, 3)
    res['wall_s'] = round(time.time() - t0, 2)
    with open(out_path, 'w') as f:
        json.dump(res, f, default=repr)


# ------------------------------------------------------------------ parent side

def _spawn(prop_mod_name, cond, tier, repo, excluded):
    fd, out_path = tempfile.mkstemp(prefix='vfjob_', suffix='.json')
    os.close(fd)
    ctx = mp.get_context('fork')
    p = ctx.Process(target=_worker, args=(prop_mod_name, cond.name, tier, repo, out_path,
                                           excluded))
    p.start()
    return p, out_path, time.time()


def run_jobs(prop_mod_name, conds, tier, repo, nproc=16, seed=0, excluded_by_cond=None,
             verbose=True):
    order = list(conds)
    random.Random(seed).shuffle(order)
    order.sort(key=lambda c: -c.timeout)
    pending = list(order)
    running = []
    results = {}
    while pending or running:
        while pending and len(running) < nproc:
            c = pending.pop(0)
            p, out, t0 = _spawn(prop_mod_name, c, tier, repo,
                                (excluded_by_cond or {}).get(c.name, ()))
            running.append((c, p, out, t0))
        time.sleep(0.2)
        still = []
        for (c, p, out, t0) in running:
            hard = c.timeout * 3 + 240
            if p.is_alive() and time.time() - t0 < hard:
                still.append((c, p, out, t0))
                continue
            if p.is_alive():
                p.terminate()
                p.join(5)
                r = {'cond': c.name, 'status': 'inconclusive',
                     'detail': 'job exceeded hard limit of %ds' % hard, 'paths': 0,
                     'paths_done': 0, 'queries': 0, 'solver_s': 0.0,
                     'wall_s': round(time.time() - t0, 1)}
            else:
                p.join()
                try:
                    r = json.load(open(out))
                except Exception:
                    r = {'cond': c.name, 'status': 'error',
                         'detail': 'worker died (exit %s) without result' % p.exitcode,
                         'paths': 0, 'paths_done': 0, 'queries': 0, 'solver_s': 0.0,
                         'wall_s': round(time.time() - t0, 1)}
            try:
                os.unlink(out)
            except OSError:
                pass
            results[c.name] = r
            if verbose:
                print('  [%s] %-40s %-12s paths=%s queries=%s solver=%.1fs wall=%.1fs %s'
                      % (time.strftime('%H:%M:%S'), c.name, r['status'], r.get('paths_done'),
                         r.get('queries'), r.get('solver_s', 0.0), r.get('wall_s', 0.0),
                         (r.get('detail') or '')[:160].replace('\n', ' | ')), flush=True)
        running = still
        if os.environ.get('VF_FIRST_VIOLATION') and \
                any(r['status'] == 'violation' for r in results.values()):
            # seed-testing aid (tools/runseeds.py): stop at the first replayed violation
            for (c, p, out, t0) in running:
                p.terminate()
                p.join(5)
                try:
                    os.unlink(out)
                except OSError:
                    pass
                results[c.name] = {'cond': c.name, 'status': 'inconclusive',
                                   'detail': 'stopped after first violation', 'paths': 0,
                                   'paths_done': 0, 'queries': 0, 'solver_s': 0.0, 'wall_s': 0.0}
            for c in pending:
                results[c.name] = {'cond': c.name, 'status': 'inconclusive',
                                   'detail': 'stopped after first violation', 'paths': 0,
                                   'paths_done': 0, 'queries': 0, 'solver_s': 0.0, 'wall_s': 0.0}
            running, pending = [], []
    return results


def load_known(prop_id):
    path = os.path.join(HERE, 'known_findings.json')
    if not os.path.exists(path):
        return [], []
    doc = json.load(open(path))
    known = [k for k in doc.get('known', []) if k['property'] == prop_id]
    fixed = [k for k in doc.get('fixed', []) if k['property'] == prop_id]
    return known, fixed


def check_property(prop_id, mod_name, tier, repo, seed, only=None, nproc=16):
    """Runs all conditions of a property; prints the verdict lines; writes evidence.
    Returns the process exit code."""
    t0 = time.time()
    mod = importlib.import_module(mod_name)
    conds = mod.conditions(tier)
    if only:
        conds = [c for c in conds if any(o in c.name for o in only)]
    known, _fixed = load_known(prop_id)
    print('%s tier=%s repo=%s conditions=%d' % (prop_id, tier, repo, len(conds)), flush=True)
    results = run_jobs(mod_name, conds, tier, repo, nproc=nproc, seed=seed)
    # known findings: re-run the condition with the known region assumed away so that a
    # different violation of the same condition is still found
    known_hits = []
    rounds = 0
    excluded = {}
    while rounds < 4:
        rounds += 1
        again = []
        for c in conds:
            r = results[c.name]
            if r['status'] != 'violation':
                continue
            for k in known:
                if k['condition'] == c.name and k['signature'] == r.get('what') \
                        and k['signature'] not in excluded.get(c.name, ()):
                    known_hits.append((k, r))
                    excluded.setdefault(c.name, []).append(k['signature'])
                    again.append(c)
                    break
        if not again:
            break
        rr = run_jobs(mod_name, again, tier, repo, nproc=nproc, seed=seed,
                      excluded_by_cond=excluded)
        for name, r in rr.items():
            r['excluded_known'] = list(excluded.get(name, ()))
            results[name] = r
    violations = []
    gaps = []
    errors = []
    inconclusive = []
    confirmed = []
    for c in conds:
        r = results[c.name]
        s = r['status']
        if s == 'violation':
            violations.append(r)
        elif s == 'modelgap':
            gaps.append(r)
        elif s in ('error', 'cex_not_reproduced'):
            errors.append(r)
        elif s == 'inconclusive':
            inconclusive.append(r)
        else:
            confirmed.append(r)
    os.makedirs(os.path.join(HERE, 'replays', prop_id), exist_ok=True)
    for k, r in known_hits:
        print('KNOWN-FINDING: property=%s %s' % (prop_id, k['what']), flush=True)
    replay_paths = []
    for r in violations:
        h = hashlib.sha1(json.dumps(r.get('cex'), sort_keys=True, default=repr).encode()
                         ).hexdigest()[:10]
        path = os.path.join(HERE, 'replays', prop_id, '%s-%s.json' % (r['cond'], h))
        with open(path, 'w') as f:
            json.dump({'property': prop_id, 'condition': r['cond'], 'tier': tier,
                       'what': r.get('what'), 'cex': r.get('cex')}, f, indent=1, default=repr)
        replay_paths.append(path)
        print('VIOLATION property=%s replay=%s' % (prop_id, path), flush=True)
        print('  condition=%s what=%s' % (r['cond'], r.get('what')), flush=True)
    for r in inconclusive:
        print('INCONCLUSIVE %s: %s' % (r['cond'], (r.get('detail') or '')[:200]), flush=True)
    for r in gaps:
        print('MODELGAP %s: %s' % (r['cond'], (r.get('detail') or '')[:1500]), flush=True)
    for r in errors:
        print('HARNESS-ERROR %s: %s' % (r['cond'], (r.get('detail') or '')[:3000]), flush=True)
    wall = time.time() - t0
    if not (os.environ.get('VF_FIRST_VIOLATION') or os.environ.get('VF_NO_EVIDENCE')):
        # seed-testing and smoke runs are not evidence
        write_evidence(prop_id, mod, tier, seed, conds, results, known_hits, wall,
                       len(violations))
    if violations:
        return EXIT_VIOLATION
    if errors:
        return EXIT_HARNESS
    if gaps:
        return EXIT_GAP
    return EXIT_OK


def write_evidence(prop_id, mod, tier, seed, conds, results, known_hits, wall, nviol):
    paths = sum(int(r.get('paths_done') or 0) for r in results.values())
    started = sum(int(r.get('paths') or 0) for r in results.values())
    direct = sum(int(r.get('direct_queries') or 0) for r in results.values())
    queries = sum(int(r.get('queries') or 0) for r in results.values())
    solver_s = sum(float(r.get('solver_s') or 0.0) for r in results.values())
    sources = {}
    for r in results.values():
        sources.update(r.get('sources') or {})
    per_cond = {}
    samples = []
    for c in conds:
        r = results[c.name]
        per_cond[c.name] = {'status': r['status'], 'paths_completed': r.get('paths_done'),
                            'paths_started': r.get('paths'),
                            'paths_rejected_by_assumption': r.get('rejected'),
                            'direct_queries': r.get('direct_queries'),
                            'solver_queries': r.get('queries'), 'solver_s': r.get('solver_s'),
                            'wall_s': r.get('wall_s'), 'timeout_s': c.timeout,
                            'coverage_marks': r.get('marks'), 'doc': c.doc,
                            'detail': (r.get('detail') or '')[:400],
                            'excluded_known': r.get('excluded_known')}
        for s in (r.get('samples') or [])[:2]:
            samples.append({'condition': c.name, 'case': s})
        if r.get('cex'):
            samples.append({'condition': c.name, 'counterexample': r['cex'],
                            'status': r['status']})
    if not samples:
        samples = [{'note': 'no completed path recorded'}]
    n_conf = sum(1 for r in results.values() if r['status'] == 'confirmed')
    n_inc = sum(1 for r in results.values() if r['status'] == 'inconclusive')
    info = getattr(mod, 'INFO', {})
    ev = {
        'property_id': prop_id,
        'tier': tier,
        'seed': int(seed),
        'level': 'other',
        'coverage': {
            'explanation': info.get('explanation', '') + ' | This run: %d conditions, %d '
            'confirmed over all paths within bounds, %d inconclusive, %d violations, %d known '
            'findings.' % (len(conds), n_conf, n_inc, nviol, len(known_hits)),
            'evaluations': int(max(started, paths) + direct),
            'distinct_nontrivial': int(paths + direct),
            'rule': 'evaluations = symbolic paths CrossHair started through the re-hosted FlowCal '
                    'code (each a distinct sequence of branch decisions in CrossHair\'s search '
                    'tree) plus direct z3 queries; distinct_nontrivial = those paths that ran to '
                    'the end and reached the oracle with a verdict (paths discarded by a harness '
                    'assumption or cut by a solver timeout are not counted) plus direct queries '
                    'with a definite sat/unsat answer.  Each path stands for all inputs '
                    'satisfying its path condition, decided by z3.',
            'samples': samples[:12],
            'obligations': len(conds),
            'discharged': n_conf,
            'inconclusive': n_inc,
            'functions_encoded': info.get('functions', []),
            'source_sha1': sources,
            'bounds': info.get('bounds', {}).get(tier, info.get('bounds', {})),
            'outside_claim': info.get('outside', []),
            'stubs': info.get('stubs', []),
            'solver_queries': int(queries),
            'solver_seconds': round(solver_s, 2),
            'per_condition': per_cond,
            'known_findings_hit': [k['what'] for k, _ in known_hits],
            'exhaustive': False,
            'trusted_base': ['CrossHair 0.0.110 path exploration and builtin models', 'z3 5.1.0',
                             'symnp/stub models (validated differentially against the installed '
                             'NumPy/SciPy on each run where a validate condition is listed)',
                             'harness oracles'],
        },
        'assumptions': info.get('assumptions', []),
        'wall_s': round(wall, 1),
        'violations': int(nviol),
    }
    os.makedirs(os.path.join(HERE, 'evidence'), exist_ok=True)
    with open(os.path.join(HERE, 'evidence', prop_id + '.json'), 'w') as f:
        json.dump(ev, f, indent=1, default=repr)
