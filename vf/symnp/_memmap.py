"""Model of np.memmap for the way FlowCal uses it (mode 'r', C order, explicit shape).

The file object must expose
  _vf_bytes : list of byte values (concrete int, symbolic int 0..255, or 8-bit BVT)
  _vf_len   : file length (int, possibly symbolic); bytes beyond it do not exist
Contract reproduced from the installed NumPy (probed in this sandbox):
  * empty file                       -> ValueError('cannot mmap an empty file')
  * offset + nbytes > file length    -> ValueError('mmap length is greater than file size')
  * otherwise an array of the requested shape whose element k is decoded from bytes
    [offset + k*itemsize, offset + (k+1)*itemsize) in the dtype's byte order.
"""
import struct

import z3

from .core import ndarray, dtype as _dtype_cls, _prod, ModelGap
from .scalars import BVT
from .. import ch


def _decode(bs, dt, big):
    """bs: list of byte values in file order."""
    n = len(bs)
    order = bs if big else list(reversed(bs))     # most significant first
    if any(type(b) is BVT for b in bs):
        e = order[0].e if type(order[0]) is BVT else z3.BitVecVal(order[0], 8)
        for b in order[1:]:
            e = z3.Concat(e, b.e if type(b) is BVT else z3.BitVecVal(b, 8))
        return BVT(e)          # for float dtypes: the IEEE bit pattern
    if dt.kind == 'u':
        v = 0
        for b in order:
            v = (v << 8) + b
        return v
    if dt.kind == 'f':
        if any(ch.var_of(b) is not None for b in bs):
            raise ModelGap('symbolic int bytes in float data (use BVT)')
        raw = bytes(order)
        return struct.unpack('>' + {4: 'f', 8: 'd', 2: 'e'}[n], raw)[0]
    if dt.kind == 'i':
        v = 0
        for b in order:
            v = (v << 8) + b
        if v >= 1 << (8 * n - 1):
            v -= 1 << (8 * n)
        return v
    raise ModelGap('memmap dtype %s' % dt)


def memmap_decode(buf, dtype='uint8', mode='r+', offset=0, shape=None, order='C'):
    if mode != 'r' or order != 'C' or shape is None:
        raise ModelGap('memmap mode/order/shape')
    if not hasattr(buf, '_vf_bytes'):
        raise ModelGap('memmap on a real file object')
    # byte order from the dtype *specification* (the dtype object normalises '<')
    big = False
    if isinstance(dtype, str):
        big = dtype.startswith('>')
        dt = _dtype_cls(dtype)
    else:
        dt = _dtype_cls(dtype)
        big = dt.byteorder == '>'
    if isinstance(shape, int):
        shape = (shape,)
    shape = tuple(int(s) for s in shape)
    for s in shape:
        if s < 0:
            raise ValueError('negative dimensions are not allowed')
    flen = buf._vf_len
    if flen == 0:
        raise ValueError('cannot mmap an empty file')
    if offset < 0:
        raise ValueError('offset must be non-negative')
    n = _prod(shape)
    nbytes = n * dt.itemsize
    if offset + nbytes > flen:
        raise ValueError('mmap length is greater than file size')
    data = buf._vf_bytes
    isz = dt.itemsize
    if type(offset) is not int:
        import operator
        offset = operator.index(offset)
    elems = [_decode(data[offset + k * isz: offset + (k + 1) * isz], dt, big)
             for k in range(n)]
    native = _dtype_cls(dt.kind + str(dt.itemsize))
    r = ndarray._from_flat(elems, shape, native)
    r._vf_big = big
    return r


def fromfile_decode(file, dtype=float, count=-1, sep='', offset=0):
    """Model of np.fromfile(file, dtype, count) in binary mode on a model file object: reads
    min(count, whole items available) items from the current position (+offset), silently
    returning fewer at end of file (NumPy's contract), as a 1-D array; advances the position."""
    if sep != '' or not hasattr(file, '_vf_bytes') or not hasattr(file, 'tell'):
        raise ModelGap('fromfile on a real file object / text mode')
    big = False
    if isinstance(dtype, str):
        big = dtype.startswith('>')
    dt = _dtype_cls(dtype)
    if not isinstance(dtype, str):
        big = dt.byteorder == '>'
    isz = dt.itemsize
    start = file.tell() + offset
    flen = file._vf_len
    a = flen - start
    if count is None or count < 0:
        count = max(0, (len(file._vf_bytes) - start)) // isz
    count = int(count)
    if a >= count * isz:
        n = count
    elif a < isz:
        n = 0
    else:
        n = ch.pick(a // isz, 1, count)
    import operator
    start = operator.index(start)
    if ch.var_of(start) is not None:
        start = ch.realize(start)
    data = file._vf_bytes
    elems = [_decode(data[start + k * isz: start + (k + 1) * isz], dt, big) for k in range(n)]
    native = _dtype_cls(dt.kind + str(dt.itemsize))
    r = ndarray._from_flat(elems, (n,), native)
    r._vf_big = big
    file.seek(start + n * isz)
    return r
