"""symnp core: dtype tags, NumPy-scalar wrappers and a strided, list-backed ndarray.

Elements are ordinary Python objects: concrete numbers, CrossHair symbolic
int/bool/str, or the solver-backed scalars of scalars.py.  Basic indexing yields
views (shared buffer), advanced indexing yields copies, as in NumPy; the
subclassing protocol (__array_finalize__/__array_wrap__/view/__reduce__) is
implemented because FlowCal.io.FCSData relies on it.
"""
import builtins
import itertools
import math
import operator

import z3

from .. import ch
from .scalars import RealT, BVT, TermT, is_custom, lift, unary, CONFIG
from . import scalars as _sc


class ModelGap(Exception):
    """The code under analysis used library behaviour the model does not cover."""


# --------------------------------------------------------------------------- dtype

_KIND_RANK = {'b': 0, 'u': 1, 'i': 2, 'f': 3, 'O': 5, 'U': 4}


class dtype(object):
    _cache = {}

    def __new__(cls, spec=None, align=False, copy=False):
        if isinstance(spec, dtype):
            return spec
        key = cls._normalise(spec)
        inst = cls._cache.get(key)
        if inst is None:
            inst = object.__new__(cls)
            inst.kind, inst.itemsize, inst.byteorder = key
            cls._cache[key] = inst
        return inst

    @staticmethod
    def _normalise(spec):
        if spec is None or spec is float:
            return ('f', 8, '=')
        if spec is int:
            return ('i', 8, '=')
        if spec is bool:
            return ('b', 1, '|')
        if spec is object:
            return ('O', 8, '|')
        if spec is str:
            return ('U', 0, '=')
        if isinstance(spec, type) and issubclass(spec, generic):
            return spec._dtkey
        if isinstance(spec, str):
            s = spec
            bo = '='
            if s and s[0] in '<>=|':
                bo = s[0]
                s = s[1:]
                if bo == '=':
                    bo = '='
            names = {'bool': ('b', 1), 'bool_': ('b', 1), '?': ('b', 1), 'b1': ('b', 1),
                     'int': ('i', 8), 'int_': ('i', 8), 'int64': ('i', 8), 'int32': ('i', 4),
                     'int16': ('i', 2), 'int8': ('i', 1), 'intp': ('i', 8),
                     'uint8': ('u', 1), 'uint16': ('u', 2), 'uint32': ('u', 4),
                     'uint64': ('u', 8), 'uint': ('u', 8),
                     'float': ('f', 8), 'float64': ('f', 8), 'float32': ('f', 4),
                     'float16': ('f', 2), 'double': ('f', 8), 'single': ('f', 4),
                     'object': ('O', 8), 'O': ('O', 8), 'str': ('U', 0), 'U': ('U', 0)}
            if s in names:
                k, n = names[s]
            elif len(s) >= 2 and s[0] in 'iufb' and s[1:].isdigit():
                k, n = s[0], int(s[1:])
                if (k, n) not in (('i', 1), ('i', 2), ('i', 4), ('i', 8), ('u', 1), ('u', 2),
                                  ('u', 4), ('u', 8), ('f', 2), ('f', 4), ('f', 8), ('b', 1)):
                    raise TypeError('data type %r not understood' % (spec,))
            elif s[:1] == 'U' and s[1:].isdigit():
                k, n = 'U', 0
            else:
                raise TypeError('data type %r not understood' % (spec,))
            if n == 1 or k in 'bOU':
                bo = '|' if k != 'U' else '='
            if bo == '<':
                bo = '='          # little-endian host
            return (k, n, bo)
        raise TypeError('data type %r not understood' % (spec,))

    @property
    def name(self):
        if self.kind == 'b':
            return 'bool'
        if self.kind == 'O':
            return 'object'
        if self.kind == 'U':
            return 'str'
        return {'i': 'int', 'u': 'uint', 'f': 'float'}[self.kind] + str(self.itemsize * 8)

    @property
    def str(self):
        bo = self.byteorder
        if bo == '=':
            bo = '<'
        return bo + self.kind + str(self.itemsize)

    @property
    def type(self):
        return _SCALAR_TYPES[(self.kind, self.itemsize)]

    @property
    def bits(self):
        return self.itemsize * 8

    def newbyteorder(self, o='S'):
        return self

    def __eq__(self, other):
        try:
            o = dtype(other)
        except TypeError:
            return False
        return (self.kind, self.itemsize, self.byteorder) == (o.kind, o.itemsize, o.byteorder)

    def __ne__(self, other):
        return not self.__eq__(other)

    def __hash__(self):
        return hash((self.kind, self.itemsize, self.byteorder))

    def __repr__(self):
        return "dtype('%s')" % (self.name if self.byteorder != '>' else self.str)

    __str__ = lambda self: self.name


BOOL = dtype('bool')
INT64 = dtype('int64')
FLOAT64 = dtype('float64')
OBJECT = dtype('object')
STR = dtype('str')


# ----------------------------------------------------------------- element helpers

def _is_symbolic(v):
    return ch.var_of(v) is not None


def _pykind(v):
    """Kind letter of a bare element."""
    with ch.NoTracing():
        t = type(v)
        if t is bool:
            return 'b'
        if t is int:
            return 'i'
        if t is float:
            return 'f'
        if t is str:
            return 'U'
        if t is RealT:
            return 'f'
        if t is BVT:
            return 'u'
        if t is TermT:
            return 'f'
        var = ch.var_of(v)
        if var is not None:
            if z3.is_bool(var):
                return 'b'
            if z3.is_int(var):
                return 'i'
            if z3.is_string(var) or z3.is_seq(var):
                return 'U'
            return 'f'
        if isinstance(v, generic):
            return v._dtkey[0]
    # CrossHair symbolic containers (e.g. LazyIntSymbolicStr) and other objects
    if isinstance(v, bool):
        return 'b'
    if isinstance(v, int):
        return 'i'
    if isinstance(v, float):
        return 'f'
    if isinstance(v, str):
        return 'U'
    return 'O'


def _to_real(v):
    """Lift a symbolic int to RealT (exact); leave everything else."""
    if type(v) is RealT:
        return v
    var = ch.var_of(v)
    if var is not None and ch.space() is not None:
        with ch.NoTracing():
            if z3.is_int(var) or z3.is_bool(var) or z3.is_real(var):
                return RealT(lift(v))
    return v


def _cast(v, dt):
    """Cast a bare element to dtype tag dt."""
    if isinstance(v, generic):
        v = v.v
    k = dt.kind
    if k == 'O':
        return v
    with ch.NoTracing():
        t = type(v)
    if t is TermT:
        return v
    if t is RealT:
        if k == 'f':
            return v
        if k in 'iu':
            return v.__trunc__()
        if k == 'b':
            return v != 0
        return v
    if t is BVT:
        if k in 'ui':
            return v.resize(dt.bits)
        raise ModelGap('bit-vector cast to %s' % dt)
    if k == 'f':
        if v is None:
            return float('nan')
        if t is float:
            return v
        if t is int or t is bool:
            return float(v)
        if _is_symbolic(v):
            return v        # integral symbolic kept exact
        if isinstance(v, str):
            return float(v)
        return float(v)
    if k == 'u':
        if t is int or t is bool:
            return int(v) & ((1 << dt.bits) - 1)
        if t is float:
            return int(v) & ((1 << dt.bits) - 1)
        return v
    if k == 'i':
        if t is int:
            return v
        if t is bool:
            return int(v)
        if t is float:
            return int(v)
        if _is_symbolic(v):
            with ch.NoTracing():
                var = ch.var_of(v)
                if z3.is_bool(var):
                    return ch.sym_int(z3.If(var, 1, 0))
            return v
        return int(v)
    if k == 'b':
        if t is bool:
            return v
        if _is_symbolic(v):
            with ch.NoTracing():
                var = ch.var_of(v)
                if z3.is_bool(var):
                    return v
            return v != 0
        return bool(v)
    if k == 'U':
        return v if isinstance(v, str) else str(v)
    return v


def _infer_dtype(elems):
    rank = -1
    kind = None
    for v in elems:
        k = _pykind(v)
        if isinstance(v, generic):
            dtv = v.dtype
            r = _KIND_RANK[dtv.kind]
            if r > rank or (r == rank and kind is not None and dtv.itemsize > kind.itemsize):
                rank, kind = r, dtv
            continue
        r = _KIND_RANK[k]
        if r > rank:
            rank = r
            kind = {'b': BOOL, 'i': INT64, 'u': dtype('uint64'), 'f': FLOAT64, 'U': STR,
                    'O': OBJECT}[k]
    if kind is None:
        return FLOAT64
    return kind


def _promote(da, db, weak_a=False, weak_b=False):
    """Result dtype of an arithmetic op."""
    if da.kind == 'O' or db.kind == 'O':
        return OBJECT
    if weak_a and not weak_b:
        da, db, weak_a, weak_b = db, da, weak_b, weak_a
    if weak_b and not weak_a:
        # python scalar: only its kind counts
        if _KIND_RANK[db.kind] <= _KIND_RANK[da.kind] or (db.kind == 'i' and da.kind == 'u'):
            return da
        if db.kind == 'f':
            return da if da.kind == 'f' else FLOAT64
        if db.kind == 'i':
            return INT64 if da.kind == 'b' else da
        return db
    ra, rb = _KIND_RANK[da.kind], _KIND_RANK[db.kind]
    if da.kind == db.kind:
        return da if da.itemsize >= db.itemsize else db
    hi, lo = (da, db) if ra > rb else (db, da)
    if hi.kind == 'f':
        if lo.kind in 'iu' and lo.itemsize >= 4 and hi.itemsize < 8:
            return FLOAT64
        return hi
    if hi.kind == 'i' and lo.kind == 'u':
        if lo.itemsize >= 8:
            return FLOAT64
        if lo.itemsize >= hi.itemsize:
            return dtype('i%d' % (lo.itemsize * 2))
        return hi
    return hi


# ------------------------------------------------------------------ scalar wrappers

class generic(object):
    """NumPy scalar stand-in (0-d, immutable).  Not a subclass of int/float."""
    __slots__ = ('v',)
    _dtkey = ('O', 8, '|')
    _symnp_scalar = True
    ndim = 0
    shape = ()
    size = 1
    __array_priority__ = -1000000.0

    def __init__(self, v=0):
        self.v = _cast(v, self.dtype)

    @property
    def dtype(self):
        return dtype(self._dtkey[0] + str(self._dtkey[1])) if self._dtkey[0] not in 'OU' \
            else dtype('object' if self._dtkey[0] == 'O' else 'str')

    def item(self):
        return self.v

    def astype(self, dt):
        return _mk_scalar(_cast(self.v, dtype(dt)), dtype(dt))

    def copy(self):
        return self

    def __copy__(self):
        return self

    def __deepcopy__(self, memo):
        return self

    def __getitem__(self, key):
        if key == () or key is Ellipsis:
            return self
        raise IndexError('invalid index to scalar variable.')

    def __bool__(self):
        return bool(self.v)

    def __int__(self):
        return int(self.v)

    def __float__(self):
        return float(self.v)

    def __index__(self):
        if self._dtkey[0] in 'iu':
            return self.v if type(self.v) is int else operator.index(self.v)
        raise TypeError('only integer scalar arrays can be converted to a scalar index')

    def __hash__(self):
        return hash(self.v)

    def __repr__(self):
        return 'np.%s(%r)' % (self.dtype.name, self.v)

    def __str__(self):
        return str(self.v)

    def __format__(self, spec):
        return format(self.v, spec)

    def __ceil__(self):
        return math.ceil(self.v)

    def __floor__(self):
        return math.floor(self.v)

    def __round__(self, n=None):
        return round(self.v, n)

    def tolist(self):
        return self.v

    def reshape(self, *shape):
        return asarray(self).reshape(*shape)

    def __reduce__(self):
        return (_mk_scalar, (self.v, self.dtype))


def _scalar_class(name, key):
    return type(name, (generic,), {'__slots__': (), '_dtkey': key})


bool_ = _scalar_class('bool_', ('b', 1, '|'))
int8 = _scalar_class('int8', ('i', 1, '|'))
int16 = _scalar_class('int16', ('i', 2, '='))
int32 = _scalar_class('int32', ('i', 4, '='))
int64 = _scalar_class('int64', ('i', 8, '='))
uint8 = _scalar_class('uint8', ('u', 1, '|'))
uint16 = _scalar_class('uint16', ('u', 2, '='))
uint32 = _scalar_class('uint32', ('u', 4, '='))
uint64 = _scalar_class('uint64', ('u', 8, '='))
float16 = _scalar_class('float16', ('f', 2, '='))
float32 = _scalar_class('float32', ('f', 4, '='))
float64 = _scalar_class('float64', ('f', 8, '='))
object_ = _scalar_class('object_', ('O', 8, '|'))
str_ = _scalar_class('str_', ('U', 0, '='))
intp = int64
int_ = int64
double = float64

_SCALAR_TYPES = {('b', 1): bool_, ('i', 1): int8, ('i', 2): int16, ('i', 4): int32,
                 ('i', 8): int64, ('u', 1): uint8, ('u', 2): uint16, ('u', 4): uint32,
                 ('u', 8): uint64, ('f', 2): float16, ('f', 4): float32, ('f', 8): float64,
                 ('O', 8): object_, ('U', 0): str_}


def _mk_scalar(v, dt):
    """Element leaving an array: custom scalars and objects stay bare."""
    if dt.kind == 'O' or is_custom(v):
        return v
    if isinstance(v, generic):
        return v
    if _is_symbolic(v):
        # CrossHair symbolic atoms stay bare: int()/float()/index() of a wrapper would have
        # to return a concrete value (Python checks the result type of __int__)
        return v
    if dt.kind == 'U':
        return v          # NumPy str_ is a str subclass; a bare str behaves the same
    cls = _SCALAR_TYPES[(dt.kind, dt.itemsize)]
    s = object.__new__(cls)
    s.v = v
    return s


def _bare(x):
    return x.v if isinstance(x, generic) else x


# ------------------------------------------------------------------ element ops

def _wrap_uint(v, dt):
    if dt.kind == 'u' and not _is_symbolic(v) and type(v) is int:
        return v & ((1 << dt.bits) - 1)
    return v


def _e_add(a, b):
    return a + b


def _e_sub(a, b):
    return a - b


def _e_mul(a, b):
    return a * b


def _e_div(a, b):
    if type(a) is RealT or type(b) is RealT:
        return a / b
    if _is_symbolic(a) or _is_symbolic(b):
        return _to_real(a) / _to_real(b) if type(_to_real(a)) is RealT else _to_real(a).__rtruediv__(b)
    if b == 0:
        a = float(a)
        if a != a or a == 0:
            return float('nan')
        return math.copysign(float('inf'), a) * math.copysign(1.0, float(b))
    return a / b


def _e_floordiv(a, b):
    return a // b


def _e_mod(a, b):
    return a % b


def _e_pow(a, b):
    # element-wise (vector-path) power
    if type(a) is RealT:
        return a.__pow__(b, vec=True)
    if type(b) is RealT:
        return b.__rpow__(a, vec=True)
    if _is_symbolic(a) or _is_symbolic(b):
        ra = _to_real(a)
        if type(ra) is RealT:
            return ra.__pow__(b, vec=True)
        return _to_real(b).__rpow__(a, vec=True)
    try:
        return a ** b
    except OverflowError:
        return float('inf')
    except ZeroDivisionError:
        return float('inf')


def _e_and(a, b):
    if type(a) is BVT or type(b) is BVT:
        return a & b
    ka, kb = _pykind(a), _pykind(b)
    if ka == 'b' and kb == 'b':
        return ch.b_and(a, b)
    return a & b


def _e_or(a, b):
    if type(a) is BVT or type(b) is BVT:
        return a | b
    ka, kb = _pykind(a), _pykind(b)
    if ka == 'b' and kb == 'b':
        return ch.b_or(a, b)
    return a | b


def _e_xor(a, b):
    ka, kb = _pykind(a), _pykind(b)
    if ka == 'b' and kb == 'b':
        return ch.b_xor(a, b)
    return a ^ b


def _e_lshift(a, b):
    return a << b


def _e_rshift(a, b):
    return a >> b


def _e_eq(a, b):
    if type(a) is TermT or type(b) is TermT:
        return a == b
    r = (a == b)
    return r


def _e_ne(a, b):
    return a != b


def _inf_aware(op, swapped):
    def f(a, b):
        # comparisons of a (possibly symbolic) finite number with a concrete infinity
        # are decided here; CrossHair would otherwise coerce a symbolic int to float.
        with ch.NoTracing():
            ta, tb = type(a), type(b)
            ainf = ta is float and math.isinf(a)
            binf = tb is float and math.isinf(b)
        if binf and not ainf and (ta is not float or a == a):
            if ta is RealT or _pykind(a) in 'ib' or ta is float:
                return {'lt': b > 0, 'le': b > 0, 'gt': b < 0, 'ge': b < 0, 'eq': False,
                        'ne': True}[op]
        if ainf and not binf and (tb is not float or b == b):
            if tb is RealT or _pykind(b) in 'ib' or tb is float:
                return {'lt': a < 0, 'le': a < 0, 'gt': a > 0, 'ge': a > 0, 'eq': False,
                        'ne': True}[op]
        # a symbolic int against a float: compare over the reals (CrossHair would coerce the
        # int to an IEEE float term)
        if ta is float and _is_symbolic(b) and _pykind(b) in 'ib':
            b = _to_real(b)
        elif tb is float and _is_symbolic(a) and _pykind(a) in 'ib':
            a = _to_real(a)
        return swapped(a, b)
    return f


_CMP = {'lt': _inf_aware('lt', operator.lt), 'le': _inf_aware('le', operator.le),
        'gt': _inf_aware('gt', operator.gt), 'ge': _inf_aware('ge', operator.ge),
        'eq': _inf_aware('eq', _e_eq), 'ne': _inf_aware('ne', _e_ne)}
_ARITH = {'add': _e_add, 'sub': _e_sub, 'mul': _e_mul, 'truediv': _e_div,
          'floordiv': _e_floordiv, 'mod': _e_mod, 'pow': _e_pow, 'and': _e_and,
          'or': _e_or, 'xor': _e_xor, 'lshift': _e_lshift, 'rshift': _e_rshift}


# ----------------------------------------------------------------------- ndarray

def _prod(shape):
    p = 1
    for s in shape:
        p *= s
    return p


def _c_strides(shape):
    st = []
    acc = 1
    for s in reversed(shape):
        st.append(acc)
        acc *= s
    return tuple(reversed(st))


class _Flags(object):
    __slots__ = ('writeable', 'owndata', 'c_contiguous')

    def __init__(self, writeable=True, owndata=True):
        self.writeable = writeable
        self.owndata = owndata
        self.c_contiguous = True

    def __getitem__(self, k):
        return getattr(self, k.lower())


def _is_int_like(k):
    """Index scalar: python int, symbolic int, NumPy-integer wrapper (not bool)."""
    if isinstance(k, generic):
        return k._dtkey[0] in 'iu'
    with ch.NoTracing():
        if type(k) is bool:
            return False
        if type(k) is int:
            return True
        var = ch.var_of(k)
        if var is not None:
            return z3.is_int(var)
    return False


def _is_bool_scalar(k):
    if isinstance(k, generic):
        return k._dtkey[0] == 'b'
    with ch.NoTracing():
        if type(k) is bool:
            return True
        var = ch.var_of(k)
        return var is not None and z3.is_bool(var)


class ndarray(object):
    __array_priority__ = 0.0

    # -- construction ------------------------------------------------------
    def __new__(cls, shape, dtype=float, buffer=None, offset=0, strides=None, order=None):
        if isinstance(shape, int):
            shape = (shape,)
        shape = tuple(int(s) for s in shape)
        dt = _dtype(dtype)
        self = object.__new__(cls)
        self._buf = [_zero(dt)] * _prod(shape) if buffer is None else buffer
        self._off = 0
        self._shape = shape
        self._strides = _c_strides(shape)
        self._dtype = dt
        self.flags = _Flags()
        self.base = None
        self.__array_finalize__(None)
        return self

    @classmethod
    def _make(cls, buf, off, shape, strides, dt, base=None, template=None, finalize=True):
        self = object.__new__(cls)
        self._buf = buf
        self._off = off
        self._shape = tuple([ch.realize(x) for x in shape])
        self._strides = tuple([ch.realize(x) for x in strides])
        self._dtype = dt
        self.flags = _Flags(owndata=base is None)
        self.base = base
        if finalize and cls is not ndarray:
            if template is not None and template.__dict__.get('_vf_untraced_hooks'):
                # the harness vouches that this sample's metadata is concrete: the hook
                # (FlowCal code) then runs at native speed with identical semantics
                with ch.NoTracing():
                    self.__array_finalize__(template)
                self._vf_untraced_hooks = True
            else:
                self.__array_finalize__(template)
        return self

    @classmethod
    def _from_flat(cls, flat, shape, dt, template=None):
        shape = tuple([ch.realize(x) for x in shape])
        return cls._make(list(flat), 0, shape, _c_strides(shape), dt, None, template)

    def __array_finalize__(self, obj):
        return None

    def __array_wrap__(self, arr, context=None, return_scalar=False):
        if arr.ndim == 0 and return_scalar:
            return arr[()]
        if type(arr) is type(self):
            return arr
        return arr._view_as(type(self), template=self)

    # -- basic attributes --------------------------------------------------
    @property
    def shape(self):
        return self._shape

    @shape.setter
    def shape(self, s):
        r = self.reshape(s)
        self._buf, self._off, self._shape, self._strides = r._buf, r._off, r._shape, r._strides

    @property
    def ndim(self):
        return len(self._shape)

    @property
    def size(self):
        return _prod(self._shape)

    @property
    def dtype(self):
        return self._dtype

    @property
    def itemsize(self):
        return self._dtype.itemsize

    @property
    def nbytes(self):
        return self.size * self._dtype.itemsize

    @property
    def T(self):
        return self.transpose()

    def __len__(self):
        if not self._shape:
            raise TypeError('len() of unsized object')
        return self._shape[0]

    def __iter__(self):
        if not self._shape:
            raise TypeError('iteration over a 0-d array')
        for i in range(self._shape[0]):
            yield self[i]

    def __hash__(self):
        raise TypeError("unhashable type: 'numpy.ndarray'")

    # -- element access ----------------------------------------------------
    def _positions(self):
        """Flat buffer positions in C order."""
        if not self._shape:
            return [self._off]
        out = [self._off]
        for n, st in zip(self._shape, self._strides):
            out = [p + i * st for p in out for i in range(n)]
        return out

    def _elems(self):
        buf = self._buf
        return [buf[p] for p in self._positions()]

    def _contig(self):
        return self._off == 0 and self._strides == _c_strides(self._shape) \
            and len(self._buf) == self.size

    def tolist(self):
        if not self._shape:
            return self._buf[self._off]
        with ch.NoTracing():
            el = self._elems()
            shape = self._shape

            def nest(lo, dims):
                if len(dims) == 1:
                    return el[lo:lo + dims[0]]
                step = _prod(dims[1:])
                return [nest(lo + i * step, dims[1:]) for i in range(dims[0])]
            return nest(0, shape)

    def item(self, *args):
        if self.size != 1:
            raise ValueError('can only convert an array of size 1 to a Python scalar')
        return self._elems()[0]

    def _base_for(self, cls):
        """NumPy's rule (PyArray_SetBaseObject): the base of a new view is its parent, collapsed
        through parents that are themselves views only while they have the new array's type."""
        obj = self
        while obj.base is not None and type(obj.base) is cls:
            obj = obj.base
        return obj

    def _view_as(self, cls, template=None):
        return cls._make(self._buf, self._off, self._shape, self._strides, self._dtype,
                         base=self._base_for(cls),
                         template=self if template is None else template)

    def view(self, cls=None, type=None):
        if type is not None:
            cls = type
        if cls is None:
            cls = builtins.type(self)
        if not (isinstance(cls, builtins.type) and issubclass(cls, ndarray)):
            raise ModelGap('view with dtype')
        r = self._view_as(cls)
        r.flags.writeable = self.flags.writeable
        return r

    def copy(self, order='C'):
        return builtins.type(self)._from_flat(self._elems(), self._shape, self._dtype,
                                              template=self)

    def __copy__(self):
        return self.copy()

    def __deepcopy__(self, memo):
        import copy as _copy
        r = builtins.type(self)._from_flat(
            [_copy.deepcopy(e, memo) if self._dtype.kind == 'O' else e for e in self._elems()],
            self._shape, self._dtype, template=self)
        return r

    def astype(self, dt, order='K', casting='unsafe', subok=True, copy=True):
        dt = _dtype(dt)
        if not copy and dt == self._dtype:
            return self              # NumPy returns the array itself when nothing has to change
        return builtins.type(self)._from_flat([_cast(e, dt) for e in self._elems()],
                                              self._shape, dt, template=self)

    def tobytes(self):
        return repr((self._dtype.str, self._shape, [_bare(e) for e in self._elems()])).encode()

    def fill(self, v):
        v = _cast(v, self._dtype)
        for p in self._positions():
            self._buf[p] = v

    # -- shape manipulation ------------------------------------------------
    def reshape(self, *shape, **kw):
        if len(shape) == 1 and isinstance(shape[0], (tuple, list)):
            shape = tuple(shape[0])
        shape = [int(_bare(s)) for s in shape]
        n = self.size
        if -1 in shape:
            i = shape.index(-1)
            rest = _prod([s for s in shape if s != -1])
            shape[i] = n // rest if rest else 0
        if _prod(shape) != n:
            raise ValueError('cannot reshape array of size %d into shape %s' % (n, tuple(shape)))
        cls = builtins.type(self)
        if self._strides == _c_strides(self._shape):
            return cls._make(self._buf, self._off, shape, _c_strides(shape), self._dtype,
                             base=self._base_for(cls), template=self)
        return cls._from_flat(self._elems(), shape, self._dtype, template=self)

    def ravel(self, order='C'):
        return self.reshape(-1)

    def flatten(self, order='C'):
        return builtins.type(self)._from_flat(self._elems(), (self.size,), self._dtype,
                                              template=self)

    def transpose(self, *axes):
        if self.ndim < 2:
            return self._view_as(builtins.type(self))
        if not axes or axes == (None,):
            axes = tuple(reversed(range(self.ndim)))
        elif len(axes) == 1 and isinstance(axes[0], (tuple, list)):
            axes = tuple(axes[0])
        cls = builtins.type(self)
        return cls._make(self._buf, self._off, [self._shape[a] for a in axes],
                         [self._strides[a] for a in axes], self._dtype,
                         base=self._base_for(cls), template=self)

    def squeeze(self, axis=None):
        keep = [i for i, s in enumerate(self._shape) if s != 1]
        cls = builtins.type(self)
        return cls._make(self._buf, self._off, [self._shape[i] for i in keep],
                         [self._strides[i] for i in keep], self._dtype,
                         base=self._base_for(cls), template=self)

    # -- indexing ----------------------------------------------------------
    def _parse_key(self, key):
        """-> ('basic', off, shape, strides) | ('adv', out_shape, positions)"""
        if not isinstance(key, tuple):
            key = (key,)
        items = []
        n_ell = 0
        consumed = 0
        has_adv = False
        for k in key:
            if k is Ellipsis:
                n_ell += 1
                items.append(('ell',))
            elif k is None:
                items.append(('new',))
            elif isinstance(k, slice):
                items.append(('slice', k))
                consumed += 1
            elif _is_int_like(k):
                items.append(('int', _bare(k)))
                consumed += 1
            elif _is_bool_scalar(k):
                raise ModelGap('boolean scalar index')
            elif isinstance(k, (list, tuple, ndarray)) or hasattr(k, '__iter__') \
                    and not isinstance(k, str):
                a = asarray(k if not isinstance(k, tuple) else list(k))
                if isinstance(k, (list, tuple)) and a.size == 0:
                    a = a.astype(INT64)
                if a.dtype.kind == 'b':
                    items.append(('mask', a))
                    consumed += a.ndim
                elif a.dtype.kind in 'iu':
                    items.append(('arr', a))
                    consumed += 1
                else:
                    raise IndexError('arrays used as indices must be of integer (or boolean) type')
                has_adv = True
            else:
                raise IndexError('only integers, slices (`:`), ellipsis (`...`), numpy.newaxis '
                                 '(`None`) and integer or boolean arrays are valid indices')
        if n_ell > 1:
            raise IndexError("an index can only have a single ellipsis ('...')")
        if consumed > self.ndim:
            raise IndexError('too many indices for array: array is %d-dimensional, but %d were '
                             'indexed' % (self.ndim, consumed))
        fill = self.ndim - consumed
        full = []
        seen_ell = False
        for it in items:
            if it[0] == 'ell':
                full.extend([('slice', slice(None))] * fill)
                seen_ell = True
            else:
                full.append(it)
        if not seen_ell:
            full.extend([('slice', slice(None))] * fill)

        if not has_adv:
            off = self._off
            shape = []
            strides = []
            d = 0
            for it in full:
                if it[0] == 'new':
                    shape.append(1)
                    strides.append(0)
                elif it[0] == 'int':
                    i = self._norm_index(it[1], self._shape[d], d)
                    off = off + i * self._strides[d]
                    d += 1
                else:
                    start, stop, step = _slice_indices(it[1], self._shape[d])
                    n = _range_len(start, stop, step)
                    off = off + start * self._strides[d]
                    shape.append(n)
                    strides.append(self._strides[d] * step)
                    d += 1
            return ('basic', off, tuple(shape), tuple(strides))

        # advanced indexing
        d = 0
        parts = []    # per key item: ('adv', array-of-index, dim) | ('sl', list-of-idx, dim) | ('new',)
        for it in full:
            if it[0] == 'new':
                parts.append(('new',))
            elif it[0] == 'int':
                i = self._norm_index(it[1], self._shape[d], d)
                parts.append(('adv', _scalar_array(i, INT64), d))
                d += 1
            elif it[0] == 'slice':
                start, stop, step = _slice_indices(it[1], self._shape[d])
                parts.append(('sl', list(range(start, stop, step)), d))
                d += 1
            elif it[0] == 'arr':
                a = it[1]
                n = self._shape[d]
                parts.append(('adv', ndarray._from_flat([_bare(e) for e in a._elems()], a.shape,
                                                        INT64), d, 'raw'))
                d += 1
            else:  # mask
                m = it[1]
                if tuple(m.shape) != tuple(self._shape[d:d + m.ndim]):
                    raise IndexError('boolean index did not match indexed array along axis %d; '
                                     'size of axis is %s but size of corresponding boolean axis '
                                     'is %s' % (d, self._shape[d:d + m.ndim], m.shape))
                nz = _nonzero(m)
                for j, idx in enumerate(nz):
                    parts.append(('adv', idx, d + j))
                d += m.ndim
        adv_pos = [i for i, p in enumerate(parts) if p[0] == 'adv']
        contiguous = adv_pos == list(range(adv_pos[0], adv_pos[-1] + 1))
        bshape = ()
        for i in adv_pos:
            try:
                bshape = _broadcast_shapes(bshape, parts[i][1].shape)
            except ValueError:
                raise IndexError('shape mismatch: indexing arrays could not be broadcast '
                                 'together')
        nb = _prod(bshape)
        adv_arrays = []
        for i in adv_pos:
            el = _broadcast_to(parts[i][1], bshape)._elems()
            dim = parts[i][2]
            if len(parts[i]) > 3 and nb > 0:
                # NumPy checks index-array bounds only while iterating the broadcast result
                memo = {}
                el2 = []
                for e_ in el:
                    k_ = id(e_)
                    if k_ not in memo:
                        memo[k_] = self._norm_index(e_, self._shape[dim], dim)
                    el2.append(memo[k_])
                el = el2
            adv_arrays.append((el, dim))
        # base positions for broadcast index tuples
        bpos = []
        for j in range(nb):
            p = self._off
            for elems, dim in adv_arrays:
                p = p + elems[j] * self._strides[dim]
            bpos.append(p)
        pre = [p for i, p in enumerate(parts) if p[0] != 'adv' and i < adv_pos[0]]
        post = [p for i, p in enumerate(parts) if p[0] != 'adv' and i > adv_pos[0]]
        if not contiguous:
            pre, post = [], [p for p in parts if p[0] != 'adv']

        def expand(plist):
            shape = []
            offs = [0]
            for p in plist:
                if p[0] == 'new':
                    shape.append(1)
                else:
                    shape.append(len(p[1]))
                    st = self._strides[p[2]]
                    offs = [o + i * st for o in offs for i in p[1]]
            return shape, offs
        pre_shape, pre_offs = expand(pre)
        post_shape, post_offs = expand(post)
        out_shape = tuple(pre_shape) + tuple(bshape) + tuple(post_shape)
        positions = [a + b + c for a in pre_offs for b in bpos for c in post_offs]
        return ('adv', out_shape, positions)

    @staticmethod
    def _norm_index(i, n, axis):
        if i < 0:
            j = i + n
        else:
            j = i
        if j < 0 or j >= n:
            raise IndexError('index %s is out of bounds for axis %d with size %d'
                             % (ch.realize(i) if False else '?', axis, n))
        return ch.pick(j, 0, n)      # concretise (CrossHair forks per value)

    def _scalar_key(self, key):
        kk = key if isinstance(key, tuple) else (key,)
        if kk == ():
            return self.ndim == 0
        for k in kk:
            if not _is_int_like(k):
                return False
        return len(kk) == self.ndim

    def __getitem__(self, key):
        if isinstance(key, str):
            raise IndexError('only integers, slices (`:`), ellipsis (`...`), numpy.newaxis '
                             '(`None`) and integer or boolean arrays are valid indices')
        if ch.concrete(key):
            with ch.NoTracing():
                res = self._parse_key(key)
                scalar = res[0] == 'basic' and self._scalar_key(key)
        else:
            res = self._parse_key(key)
            scalar = res[0] == 'basic' and self._scalar_key(key)
        cls = builtins.type(self)
        if res[0] == 'basic':
            _, off, shape, strides = res
            if scalar:
                return _mk_scalar(self._buf[off], self._dtype)
            r = cls._make(self._buf, off, shape, strides, self._dtype,
                          base=self._base_for(cls), template=self)
            r.flags.writeable = self.flags.writeable
            return r
        _, out_shape, positions = res
        buf = self._buf
        return cls._from_flat([buf[p] for p in positions], out_shape, self._dtype, template=self)

    def __setitem__(self, key, value):
        if not self.flags.writeable:
            raise ValueError('assignment destination is read-only')
        if isinstance(key, str):
            raise IndexError('only integers, slices (`:`), ellipsis (`...`), numpy.newaxis '
                             '(`None`) and integer or boolean arrays are valid indices')
        if ch.concrete(key):
            with ch.NoTracing():
                res = self._parse_key(key)
        else:
            res = self._parse_key(key)
        if res[0] == 'basic':
            _, off, shape, strides = res
            tgt = ndarray._make(self._buf, off, shape, strides, self._dtype, base=self,
                                finalize=False)
            positions = tgt._positions()
            out_shape = shape
        else:
            _, out_shape, positions = res
        dt = self._dtype
        if isinstance(value, ndarray) or isinstance(value, (list, tuple)):
            v = asarray(value)
            if v._buf is self._buf:
                v = ndarray._from_flat(v._elems(), v.shape, v.dtype)
            vs = v.shape
            # NumPy allows extra leading 1-dims in the value
            while len(vs) > len(out_shape) and vs[0] == 1:
                vs = vs[1:]
                v = v.reshape(vs)
            try:
                vb = _broadcast_to(v, tuple(out_shape))
            except ValueError:
                raise ValueError('could not broadcast input array from shape %s into shape %s'
                                 % (v.shape, tuple(out_shape)))
            if v.dtype.kind == 'U' and dt.kind in 'iuf':
                elems = [dt.kind == 'f' and float(e) or int(e) for e in vb._elems()]
            else:
                elems = vb._elems()
            for p, e in zip(positions, elems):
                self._buf[p] = _cast(e, dt)
        else:
            e = _cast(value, dt) if not (isinstance(value, str) and dt.kind in 'iuf') \
                else (float(value) if dt.kind == 'f' else int(value))
            for p in positions:
                self._buf[p] = e

    # -- arithmetic --------------------------------------------------------
    def __add__(self, o):
        return _binop('add', self, o)

    def __radd__(self, o):
        return _binop('add', o, self)

    def __sub__(self, o):
        return _binop('sub', self, o)

    def __rsub__(self, o):
        return _binop('sub', o, self)

    def __mul__(self, o):
        return _binop('mul', self, o)

    def __rmul__(self, o):
        return _binop('mul', o, self)

    def __truediv__(self, o):
        return _binop('truediv', self, o)

    def __rtruediv__(self, o):
        return _binop('truediv', o, self)

    def __floordiv__(self, o):
        return _binop('floordiv', self, o)

    def __rfloordiv__(self, o):
        return _binop('floordiv', o, self)

    def __mod__(self, o):
        return _binop('mod', self, o)

    def __pow__(self, o):
        return _binop('pow', self, o)

    def __rpow__(self, o):
        return _binop('pow', o, self)

    def __and__(self, o):
        return _binop('and', self, o)

    def __rand__(self, o):
        return _binop('and', o, self)

    def __or__(self, o):
        return _binop('or', self, o)

    def __ror__(self, o):
        return _binop('or', o, self)

    def __xor__(self, o):
        return _binop('xor', self, o)

    def __lshift__(self, o):
        return _binop('lshift', self, o)

    def __rshift__(self, o):
        return _binop('rshift', self, o)

    def __lt__(self, o):
        return _binop('lt', self, o)

    def __le__(self, o):
        return _binop('le', self, o)

    def __gt__(self, o):
        return _binop('gt', self, o)

    def __ge__(self, o):
        return _binop('ge', self, o)

    def __eq__(self, o):
        return _binop('eq', self, o)

    def __ne__(self, o):
        return _binop('ne', self, o)

    def _inplace(self, op, o):
        if not self.flags.writeable:
            raise ValueError('output array is read-only')
        r = _binop(op, self.view(ndarray) if type(self) is not ndarray else self, o, wrap=False)
        if isinstance(r, ndarray):
            if tuple(r.shape) != tuple(self._shape):
                raise ValueError('non-broadcastable output operand')
            if op == 'truediv' and self._dtype.kind in 'iub':
                raise TypeError("Cannot cast ufunc 'divide' output from dtype('float64') to "
                                "%r with casting rule 'same_kind'" % (self._dtype,))
            elems = r._elems()
        else:
            elems = [_bare(r)]
        dt = self._dtype
        for p, e in zip(self._positions(), elems):
            self._buf[p] = _cast(e, dt)
        return self

    def __iadd__(self, o):
        return self._inplace('add', o)

    def __isub__(self, o):
        return self._inplace('sub', o)

    def __imul__(self, o):
        return self._inplace('mul', o)

    def __itruediv__(self, o):
        return self._inplace('truediv', o)

    def __iand__(self, o):
        return self._inplace('and', o)

    def __ior__(self, o):
        return self._inplace('or', o)

    def __neg__(self):
        return _unop(self, lambda e: -e, self._dtype)

    def __pos__(self):
        return self.copy()

    def __abs__(self):
        return _unop(self, abs, self._dtype)

    def __invert__(self):
        if self._dtype.kind == 'b':
            return _unop(self, ch.b_not, BOOL)
        return _unop(self, lambda e: ~e, self._dtype)

    def __bool__(self):
        if self.size == 1:
            return bool(self._elems()[0])
        if self.size == 0:
            raise ValueError('The truth value of an empty array is ambiguous.')
        raise ValueError('The truth value of an array with more than one element is ambiguous. '
                         'Use a.any() or a.all()')

    def __int__(self):
        if self.size != 1:
            raise TypeError('only length-1 arrays can be converted to Python scalars')
        return int(self._elems()[0])

    def __float__(self):
        if self.size != 1:
            raise TypeError('only length-1 arrays can be converted to Python scalars')
        return float(self._elems()[0])

    def __index__(self):
        if self.size != 1 or self._dtype.kind not in 'iu':
            raise TypeError('only integer scalar arrays can be converted to a scalar index')
        return operator.index(self._elems()[0])

    def __contains__(self, x):
        for e in self._elems():
            if e == _bare(x):
                return True
        return False

    def __repr__(self):
        try:
            body = repr(self.tolist())
        except Exception:
            body = '<%d elements>' % self.size
        return '%s(%s, dtype=%s)' % (builtins.type(self).__name__, body, self._dtype.name)

    __str__ = __repr__

    def __format__(self, spec):
        if self.ndim == 0:
            return format(self._elems()[0], spec)
        return str(self)

    # -- pickling (what the protocol does with NumPy's part) ----------------
    def __reduce__(self):
        state = (1, self._shape, self._dtype, False, list(self._elems()))
        return (_reconstruct, (builtins.type(self), (0,), b'b'), state)

    def __reduce_ex__(self, protocol):
        return self.__reduce__()

    def __setstate__(self, state):
        ver, shape, dt, fortran, raw = state
        self._buf = list(raw)
        self._off = 0
        self._shape = tuple(shape)
        self._strides = _c_strides(shape)
        self._dtype = dt
        self.flags = _Flags()
        self.base = None

    # -- methods delegating to functions (filled in by funcs.py) -----------
    def sum(self, axis=None, **kw):
        from . import funcs
        return funcs.sum(self, axis=axis, **kw)

    def mean(self, axis=None, **kw):
        from . import funcs
        return funcs.mean(self, axis=axis, **kw)

    def std(self, axis=None, **kw):
        from . import funcs
        return funcs.std(self, axis=axis, **kw)

    def min(self, axis=None, **kw):
        from . import funcs
        return funcs.min(self, axis=axis, **kw)

    def max(self, axis=None, **kw):
        from . import funcs
        return funcs.max(self, axis=axis, **kw)

    def all(self, axis=None, **kw):
        from . import funcs
        return funcs.all(self, axis=axis, **kw)

    def any(self, axis=None, **kw):
        from . import funcs
        return funcs.any(self, axis=axis, **kw)

    def cumsum(self, axis=None, **kw):
        from . import funcs
        return funcs.cumsum(self, axis=axis, **kw)

    def argsort(self, axis=-1, **kw):
        from . import funcs
        return funcs.argsort(self, axis=axis, **kw)

    def nonzero(self):
        from . import funcs
        return funcs.nonzero(self)

    def dot(self, o):
        from . import funcs
        return funcs.dot(self, o)

    def round(self, decimals=0):
        from . import funcs
        return funcs.round(self, decimals)


def _reconstruct(cls, shape, typecode):
    self = object.__new__(cls)
    self._buf = []
    self._off = 0
    self._shape = (0,)
    self._strides = (1,)
    self._dtype = dtype('uint8')
    self.flags = _Flags()
    self.base = None
    self.__array_finalize__(None)
    return self


def _dtype(d):
    if d is None:
        return FLOAT64
    return dtype(d)


def _zero(dt):
    return {'b': False, 'i': 0, 'u': 0, 'f': 0.0, 'O': None, 'U': ''}[dt.kind]


def _scalar_array(v, dt):
    return ndarray._make([v], 0, (), (), dt, finalize=False)


def _slice_indices(s, n):
    """slice.indices for possibly symbolic start/stop/step (concretised by forking on
    comparisons; out-of-range bounds are clamped exactly as slice.indices does)."""
    def conc(x, lo, hi):
        if x is None:
            return None
        x = _bare(x)
        if ch.var_of(x) is None:
            return operator.index(x)
        if x < lo:
            return lo
        if x >= hi:
            return hi
        return ch.pick(x, lo, hi)
    step = s.step
    if step is not None:
        step = _bare(step)
        if ch.var_of(step) is not None:
            if step == 0:
                raise ValueError('slice step cannot be zero')
            m = n + 1
            step = conc(step, -m, m)
    return slice(conc(s.start, -n - 1, n + 1), conc(s.stop, -n - 1, n + 1), step).indices(n)


def _range_len(start, stop, step):
    return len(range(start, stop, step))


def _broadcast_shapes(a, b):
    out = []
    for x, y in itertools.zip_longest(reversed(a), reversed(b), fillvalue=1):
        if x == y or y == 1:
            out.append(x)
        elif x == 1:
            out.append(y)
        else:
            raise ValueError('operands could not be broadcast together with shapes %s %s'
                             % (tuple(a), tuple(b)))
    return tuple(reversed(out))


def _broadcast_to(a, shape):
    shape = tuple(shape)
    if tuple(a.shape) == shape:
        return a
    nd = len(shape)
    ashape = (1,) * (nd - a.ndim) + tuple(a.shape)
    astr = (0,) * (nd - a.ndim) + tuple(a._strides)
    if nd < a.ndim:
        raise ValueError('cannot broadcast')
    strides = []
    for s, t, st in zip(ashape, shape, astr):
        if s == t:
            strides.append(st)
        elif s == 1:
            strides.append(0)
        else:
            raise ValueError('operands could not be broadcast together with shapes %s %s'
                             % (tuple(a.shape), shape))
    return ndarray._make(a._buf, a._off, shape, strides, a.dtype, base=a, finalize=False)


def _nonzero(m):
    """Tuple of 1-d index arrays for the true entries (C order)."""
    idxs = [[] for _ in range(max(m.ndim, 1))]
    if m.ndim == 0:
        if m._elems()[0]:
            idxs[0].append(0)
        return tuple(ndarray._from_flat(i, (len(i),), INT64) for i in idxs)
    for multi, e in zip(itertools.product(*[range(n) for n in m.shape]), m._elems()):
        if e:
            for d, i in enumerate(multi):
                idxs[d].append(i)
    return tuple(ndarray._from_flat(i, (len(i),), INT64) for i in idxs)


def _seq_shape(x):
    """Shape of a nested list/tuple (ragged -> error)."""
    if isinstance(x, ndarray):
        return tuple(x.shape)
    if isinstance(x, (list, tuple)):
        if len(x) == 0:
            return (0,)
        sub = [_seq_shape(e) for e in x]
        if any(s != sub[0] for s in sub):
            raise ValueError('setting an array element with a sequence. The requested array has '
                             'an inhomogeneous shape')
        return (len(x),) + sub[0]
    if hasattr(x, '__iter__') and not isinstance(x, str) and not isinstance(x, generic) \
            and not is_custom(x):
        return _seq_shape(list(x))
    return ()


def _seq_flat(x, out):
    if isinstance(x, ndarray):
        out.extend(_mk_scalar(e, x.dtype) if x.dtype.kind not in 'O' else e for e in x._elems())
    elif isinstance(x, (list, tuple)):
        for e in x:
            _seq_flat(e, out)
    elif hasattr(x, '__iter__') and not isinstance(x, str) and not isinstance(x, generic) \
            and not is_custom(x):
        _seq_flat(list(x), out)
    else:
        out.append(x)


def array(obj, dtype=None, copy=True, order=None, subok=False, ndmin=0):
    dt = None if dtype is None else _dtype(dtype)
    if isinstance(obj, ndarray):
        src = obj
        r = ndarray._from_flat(src._elems(), src.shape, src.dtype)
        if dt is not None and dt != r.dtype:
            r = r.astype(dt)
        return r
    if isinstance(obj, generic):
        d0 = obj.dtype if dt is None else dt
        return _scalar_array(_cast(obj.v, d0), d0)
    shape = _seq_shape(obj)
    flat = []
    _seq_flat(obj, flat)
    if dt is None:
        dt = _infer_dtype(flat)
        if dt.kind == 'O' and flat and all(is_custom(_bare(e)) for e in flat):
            dt = FLOAT64
    elems = [_cast(e, dt) for e in flat]
    return ndarray._from_flat(elems, shape, dt)


def asarray(obj, dtype=None, order=None):
    if isinstance(obj, ndarray) and (dtype is None or _dtype(dtype) == obj.dtype):
        return obj
    return array(obj, dtype=dtype)


def asanyarray(obj, dtype=None):
    return asarray(obj, dtype)


def _operand(x):
    """-> (ndarray (plain or subclass), weak?)"""
    if isinstance(x, ndarray):
        return x, False
    if isinstance(x, generic):
        return _scalar_array(x.v, x.dtype), False
    if isinstance(x, (list, tuple)):
        return array(x), False
    if is_custom(x):
        return _scalar_array(x, FLOAT64 if type(x) is not BVT else dtype('u%d' % max(1, x.width // 8))), True
    k = _pykind(x)
    if k == 'O':
        if hasattr(x, '__iter__'):
            return array(list(x)), False
        return _scalar_array(x, OBJECT), False
    return _scalar_array(x, {'b': BOOL, 'i': INT64, 'f': FLOAT64, 'U': STR}[k]), True


def _wrap_out(operands, out):
    """Apply the subclass protocol to a freshly computed plain result."""
    best = None
    for o in operands:
        if isinstance(o, ndarray) and type(o) is not ndarray:
            if best is None or o.__array_priority__ > best.__array_priority__:
                best = o
    if best is None:
        return out
    return type(best).__array_wrap__(best, out, None)


def _binop(op, a, b, wrap=True):
    if isinstance(b, str) or isinstance(a, str):
        # comparison with a string: NumPy returns element-wise False/True or NotImplemented
        if op == 'eq':
            arr = a if isinstance(a, ndarray) else b
            other = b if arr is a else a
            if isinstance(arr, ndarray) and arr.dtype.kind == 'U':
                pass
            else:
                return NotImplemented
        elif op == 'ne':
            return NotImplemented
        else:
            return NotImplemented
    A, wa = _operand(a)
    B, wb = _operand(b)
    cmp_ = op in _CMP
    if cmp_:
        rdt = BOOL
        fn = _CMP[op]
    else:
        fn = _ARITH[op]
        if op == 'truediv':
            rdt = FLOAT64 if A.dtype.kind != 'O' and B.dtype.kind != 'O' else OBJECT
            if A.dtype.kind == 'f' and A.dtype.itemsize == 4 and (wb or B.dtype == A.dtype):
                rdt = A.dtype
        else:
            rdt = _promote(A.dtype, B.dtype, wa, wb)
            if op in ('and', 'or', 'xor') and rdt.kind == 'f':
                raise TypeError("ufunc 'bitwise_%s' not supported for the input types" % op)
            if op == 'pow' and rdt.kind in 'b':
                rdt = dtype('int8')
    shape = _broadcast_shapes(A.shape, B.shape)
    ea = _broadcast_to(A, shape)._elems()
    eb = _broadcast_to(B, shape)._elems()
    if cmp_:
        out = [fn(x, y) for x, y in zip(ea, eb)]
    elif rdt.kind == 'u':
        out = [_wrap_uint(fn(x, y), rdt) for x, y in zip(ea, eb)]
    elif rdt.kind == 'f' and op != 'truediv':
        out = [fn(_f(x), _f(y)) for x, y in zip(ea, eb)]
    else:
        out = [fn(x, y) for x, y in zip(ea, eb)]
    if not shape and not isinstance(a, ndarray) and not isinstance(b, ndarray):
        return _mk_scalar(out[0], rdt)
    res = ndarray._from_flat(out, shape, rdt)
    if not wrap:
        return res
    res = _wrap_out((a, b), res)
    if isinstance(res, ndarray) and type(res) is ndarray and res.ndim == 0:
        return _mk_scalar(res._elems()[0], rdt)
    return res


def _f(x):
    """Operand entering a float-typed operation."""
    with ch.NoTracing():
        t = type(x)
    if t is int or t is bool:
        return float(x)
    if t is float or t is RealT or t is TermT or t is BVT:
        return x
    # symbolic int/bool entering float arithmetic: exact real (never CrossHair's IEEE float)
    return _to_real(x)


def _unop(a, fn, rdt, wrap=True):
    A, _ = _operand(a)
    out = [fn(e) for e in A._elems()]
    if A.ndim == 0 and not isinstance(a, ndarray):
        return _mk_scalar(out[0], rdt)
    res = ndarray._from_flat(out, A.shape, rdt)
    if wrap:
        res = _wrap_out((a,), res)
        if isinstance(res, ndarray) and type(res) is ndarray and res.ndim == 0:
            return _mk_scalar(res._elems()[0], rdt)
    return res


def _generic_binop(op, refl=False):
    def f(self, o):
        if isinstance(o, ndarray):
            return NotImplemented if not refl else _binop(op, o, self)
        if isinstance(o, (list, tuple)):
            return _binop(op, o, self) if refl else _binop(op, self, o)
        if isinstance(o, str) or o is None:
            if op == 'eq':
                return False
            if op == 'ne':
                return True
            return NotImplemented
        return _binop(op, o, self) if refl else _binop(op, self, o)
    return f


for _name, _op in (('add', 'add'), ('sub', 'sub'), ('mul', 'mul'), ('truediv', 'truediv'),
                   ('floordiv', 'floordiv'), ('mod', 'mod'), ('pow', 'pow'), ('and', 'and'),
                   ('or', 'or'), ('xor', 'xor'), ('lshift', 'lshift'), ('rshift', 'rshift')):
    setattr(generic, '__%s__' % _name, _generic_binop(_op))
    setattr(generic, '__r%s__' % _name, _generic_binop(_op, refl=True))
for _name in ('lt', 'le', 'gt', 'ge', 'eq', 'ne'):
    setattr(generic, '__%s__' % _name, _generic_binop(_name))
generic.__hash__ = lambda self: hash(self.v)
generic.__neg__ = lambda self: _mk_scalar(-self.v, self.dtype)
generic.__pos__ = lambda self: self
generic.__abs__ = lambda self: _mk_scalar(abs(self.v), self.dtype)
generic.__invert__ = lambda self: _mk_scalar(ch.b_not(self.v) if self._dtkey[0] == 'b' else ~self.v,
                                             self.dtype)
