"""Solver-backed scalars that live inside CrossHair's state space.

RealT  : z3 Real arithmetic; transcendental functions are uninterpreted
         functions (UFs) with only the axioms switched on in CONFIG, instantiated
         on the terms that occur on the current path.
BVT    : fixed-width bit-vectors (byte-level decoding; direct-z3 use).
TermT  : free (Herbrand) terms with structural equality.
"""
import math
from fractions import Fraction

import z3

from .. import ch

INF = float('inf')


class Config:
    # if True the evaluation path (vector = element-wise on an array, scalar =
    # on a Python/NumPy scalar) is part of the UF name, and no axiom relates
    # the two variants.
    tag_paths = False
    # axioms switched on per UF family name
    axioms = {
        'pow10': ('pos', 'mono', 'at0'),
        'exp': ('pos', 'mono', 'at0'),
        'log': ('mono', 'at1'),
        'log10': ('mono', 'at1'),
        'sqrt': ('mono', 'nonneg', 'sq'),
    }
    # pairs (f, g) with g(f(x)) == x asserted on occurring terms
    inverses = (('log', 'exp'), ('exp', 'log'), ('log10', 'pow10'), ('pow10', 'log10'))
    used = set()     # axiom kinds actually instantiated (for evidence)


CONFIG = Config()

_R = z3.RealSort()
_UF_CACHE = {}


def uf(name, arity=1):
    k = (name, arity)
    f = _UF_CACHE.get(k)
    if f is None:
        f = z3.Function(name, *([_R] * (arity + 1)))
        _UF_CACHE[k] = f
    return f


def _registry():
    """Per-path registry of UF applications (for axiom instantiation)."""
    sp = ch.space()
    holder = sp if sp is not None else _registry
    reg = getattr(holder, '_vf_uf_args', None)
    if reg is None:
        reg = {}
        try:
            holder._vf_uf_args = reg
        except AttributeError:
            _registry._vf_uf_args = reg
    return reg


GLOBAL_AXIOMS = []   # collected when no state space is active (direct-z3 mode)


def _assert(expr):
    if ch.space() is not None:
        ch.add_axiom(expr)
    else:
        GLOBAL_AXIOMS.append(expr)


def reset_global():
    GLOBAL_AXIOMS.clear()
    if hasattr(_registry, '_vf_uf_args'):
        del _registry._vf_uf_args


def apply_uf(family, arg, vec=False):
    """family in pow10/exp/log/log10/sqrt/sin/cos; arg a z3 Real term."""
    with ch.NoTracing():
        name = family
        if CONFIG.tag_paths and family in ('pow10', 'exp', 'log', 'log10', 'pow'):
            name = family + ('_vec' if vec else '_sc')
        f = uf(name)
        arg = z3.simplify(arg, som=True)
        t = f(arg)
        reg = _registry()
        seen = reg.setdefault(name, [])
        for a in seen:
            if z3.eq(a, arg):
                return t
        ax = CONFIG.axioms.get(family, ())
        if 'pos' in ax:
            _assert(t > 0)
            CONFIG.used.add(family + ':pos')
        if 'nonneg' in ax:
            _assert(t >= 0)
        if 'at0' in ax:
            _assert(z3.Implies(arg == 0, t == 1))
            CONFIG.used.add(family + ':at0')
        if 'at1' in ax:
            _assert(z3.Implies(arg == 1, t == 0))
            CONFIG.used.add(family + ':at1')
        if 'sq' in ax:
            _assert(z3.Implies(arg >= 0, t * t == arg))
        if 'mono' in ax:
            for a in seen:
                _assert((a < arg) == (f(a) < t))
                _assert((a == arg) == (f(a) == t))
            CONFIG.used.add(family + ':mono')
        if 'hom' in ax:
            # f(u+v) = f(u) f(v), instantiated for the registered arguments
            allargs = seen + [arg]
            for u in allargs:
                for v in allargs:
                    for w in allargs:
                        if w is arg or u is arg or v is arg:
                            _assert(z3.Implies(w == u + v, f(w) == f(u) * f(v)))
            CONFIG.used.add(family + ':hom')
        for (fi, go) in CONFIG.inverses:
            # t = fi(arg); if arg is itself go'(x) with go' the inverse family
            if fi == family and z3.is_app(arg) and arg.num_args() == 1:
                dn = arg.decl().name()
                base = dn.replace('_vec', '').replace('_sc', '')
                if base == go and (fi, go) in (('exp', 'log'), ('pow10', 'log10')):
                    x = arg.arg(0)
                    _assert(z3.Implies(x > 0, t == x))
                    CONFIG.used.add('%s(%s(x))=x' % (fi, go))
                elif base == go:
                    _assert(t == arg.arg(0))
                    CONFIG.used.add('%s(%s(x))=x' % (fi, go))
        seen.append(arg)
        return t


def note_concrete(family, arg, value):
    """A concrete application f(arg) = value whose value is exactly representable (e.g.
    log10(1) = 0, 10**2 = 100) joins the registry, so that monotonicity axioms relate later
    symbolic arguments to it."""
    if ch.space() is None or 'mono' not in CONFIG.axioms.get(family, ()):
        return
    try:
        if value != int(value) or abs(value) > 1e6 or arg != arg:
            return
        if family in ('log', 'log10', 'log2') and not (arg > 0):
            return
    except (OverflowError, ValueError, TypeError):
        return
    with ch.NoTracing():
        a = z3.simplify(_frac(float(arg)), som=True)
        name = family
        for nm in ([family + '_vec', family + '_sc'] if CONFIG.tag_paths and family in
                   ('pow10', 'exp', 'log', 'log10') else [name]):
            f = uf(nm)
            seen = _registry().setdefault(nm, [])
            if any(z3.eq(a, b) for b in seen):
                continue
            _assert(f(a) == z3.RealVal(int(value)))
            for b in seen:
                _assert((b < a) == (f(b) < f(a)))
                _assert((b == a) == (f(b) == f(a)))
            seen.append(a)


def _frac(x):
    if isinstance(x, bool):
        return z3.RealVal(1 if x else 0)
    if isinstance(x, int):
        return z3.RealVal(x)
    if isinstance(x, float):
        if math.isinf(x) or math.isnan(x):
            raise OverflowError('non-finite constant in real arithmetic')
        fr = Fraction(x)
        return z3.RealVal(fr.numerator) / z3.RealVal(fr.denominator)
    raise TypeError(type(x))


def lift(o):
    """z3 Real term for a number-like value; None if not liftable."""
    with ch.NoTracing():
        if type(o) is RealT:
            return o.e
        if hasattr(o, '_symnp_scalar'):
            return lift(o.v)
        v = ch.var_of(o)
        if v is not None:
            if z3.is_int(v):
                return z3.ToReal(v)
            if z3.is_bool(v):
                return z3.If(v, z3.RealVal(1), z3.RealVal(0))
            if z3.is_real(v):
                return v
            return None
        if isinstance(o, (bool, int, float)):
            try:
                return _frac(o)
            except OverflowError:
                return None
        return None


def _isinf(o):
    return type(o) is float and math.isinf(o)


class RealT(object):
    """A real number known only to the solver."""
    __slots__ = ('e',)
    _vf_scalar = 'real'

    def __init__(self, e):
        self.e = e

    @staticmethod
    def fresh(tag='r'):
        with ch.NoTracing():
            return RealT(z3.Const(ch.uniq(tag), _R))

    @staticmethod
    def of(x):
        if type(x) is RealT:
            return x
        with ch.NoTracing():
            e = lift(x)
            if e is None:
                raise TypeError('cannot lift %r to RealT' % (type(x),))
            return RealT(e)

    # identity-preserving copies: CrossHair deep-copies intercepted arguments
    def __copy__(self):
        return self

    def __deepcopy__(self, memo):
        return self

    def __repr__(self):
        with ch.NoTracing():
            return 'RealT(%s)' % (z3.simplify(self.e),)

    def __hash__(self):
        with ch.NoTracing():
            return hash(self.e)

    def _bin(self, o, fn):
        with ch.NoTracing():
            b = lift(o)
            if b is None:
                return NotImplemented
            return RealT(fn(self.e, b))

    def _rbin(self, o, fn):
        with ch.NoTracing():
            b = lift(o)
            if b is None:
                return NotImplemented
            return RealT(fn(b, self.e))

    def __add__(self, o):
        return self._bin(o, lambda a, b: a + b)

    def __radd__(self, o):
        return self._rbin(o, lambda a, b: a + b)

    def __sub__(self, o):
        return self._bin(o, lambda a, b: a - b)

    def __rsub__(self, o):
        return self._rbin(o, lambda a, b: a - b)

    def __mul__(self, o):
        return self._bin(o, lambda a, b: a * b)

    def __rmul__(self, o):
        return self._rbin(o, lambda a, b: a * b)

    def __truediv__(self, o):
        return self._bin(o, lambda a, b: a / b)

    def __rtruediv__(self, o):
        return self._rbin(o, lambda a, b: a / b)

    def __floordiv__(self, o):
        return self._bin(o, lambda a, b: z3.ToReal(z3.ToInt(a / b)))

    def __rfloordiv__(self, o):
        return self._rbin(o, lambda a, b: z3.ToReal(z3.ToInt(a / b)))

    def __mod__(self, o):
        return self._bin(o, lambda a, b: a - b * z3.ToReal(z3.ToInt(a / b)))

    def __neg__(self):
        with ch.NoTracing():
            return RealT(-self.e)

    def __pos__(self):
        return self

    def __abs__(self):
        with ch.NoTracing():
            return RealT(z3.If(self.e >= 0, self.e, -self.e))

    def __pow__(self, o, vec=False):
        with ch.NoTracing():
            if isinstance(o, int) and not isinstance(o, bool) and ch.var_of(o) is None and 0 <= o <= 4:
                r = z3.RealVal(1)
                for _ in range(o):
                    r = r * self.e
                return RealT(r)
            if type(o) is float and o == int(o) and 0 <= o <= 4:
                return self.__pow__(int(o))
            b = lift(o)
            if b is None:
                return NotImplemented
            return RealT(pow_term(self.e, b, vec))

    def __rpow__(self, base, vec=False):
        with ch.NoTracing():
            if ch.var_of(base) is None and isinstance(base, (int, float)) and base == 10:
                return RealT(apply_uf('pow10', self.e, vec))
            b = lift(base)
            if b is None:
                return NotImplemented
            return RealT(pow_term(b, self.e, vec))

    def _cmp(self, o, fn, inf_pos, inf_neg):
        with ch.NoTracing():
            if _isinf(o):
                return inf_pos if o > 0 else inf_neg
            b = lift(o)
            if b is None:
                return NotImplemented
            return ch.sym_bool(z3.simplify(fn(self.e, b), som=True))

    def __lt__(self, o):
        return self._cmp(o, lambda a, b: a < b, True, False)

    def __le__(self, o):
        return self._cmp(o, lambda a, b: a <= b, True, False)

    def __gt__(self, o):
        return self._cmp(o, lambda a, b: a > b, False, True)

    def __ge__(self, o):
        return self._cmp(o, lambda a, b: a >= b, False, True)

    def __eq__(self, o):
        r = self._cmp(o, lambda a, b: a == b, False, False)
        return False if r is NotImplemented else r

    def __ne__(self, o):
        r = self._cmp(o, lambda a, b: a != b, True, True)
        return True if r is NotImplemented else r

    def __bool__(self):
        return bool(self != 0)

    def __ceil__(self):
        with ch.NoTracing():
            return ch.sym_int(-z3.ToInt(-self.e))

    def __floor__(self):
        with ch.NoTracing():
            return ch.sym_int(z3.ToInt(self.e))

    def __trunc__(self):
        with ch.NoTracing():
            e = self.e
            return ch.sym_int(z3.If(e >= 0, z3.ToInt(e), -z3.ToInt(-e)))

    def value(self):
        """Concrete float on the current path (constrains the path)."""
        return ch.model_value(self.e)


def pow_term(b, x, vec=False):
    """b**x for z3 Real terms via an uninterpreted binary function 'pow'."""
    name = 'pow'
    if CONFIG.tag_paths:
        name = 'pow' + ('_vec' if vec else '_sc')
    f = uf(name, 2)
    b = z3.simplify(b, som=True)
    x = z3.simplify(x, som=True)
    t = f(b, x)
    ax = CONFIG.axioms.get('pow', ())
    reg = _registry()
    seen = reg.setdefault(name, [])
    for (b0, x0) in seen:
        if z3.eq(b0, b) and z3.eq(x0, x):
            return t
    if 'pos' in ax:
        _assert(z3.Implies(b > 0, t > 0))
    if 'nonneg' in ax:
        _assert(z3.Implies(b >= 0, t >= 0))
        _assert(z3.Implies(z3.And(b == 0, x > 0), t == 0))
        CONFIG.used.add('pow:nonneg')
    if 'mono_base' in ax:
        # for a positive exponent the power is strictly increasing in a non-negative base
        for (b0, x0) in seen:
            if z3.eq(x0, x):
                _assert(z3.Implies(z3.And(x > 0, b0 >= 0, b >= 0), (b0 < b) == (f(b0, x0) < t)))
                _assert(z3.Implies(z3.And(x > 0, b0 >= 0, b >= 0), (b0 == b) == (f(b0, x0) == t)))
        CONFIG.used.add('pow:mono_base')
    if 'explog' in ax:
        # x**m = exp(m*log x) for x>0
        t2 = apply_uf('exp', x * apply_uf('log', b, vec), vec)
        _assert(z3.Implies(b > 0, t == t2))
        CONFIG.used.add('pow=exp(m log x)')
    seen.append((b, x))
    return t


def unary(family, x, vec=False):
    """family applied to a scalar-like value -> RealT (or float when concrete)."""
    if type(x) is RealT or ch.var_of(x) is not None:
        with ch.NoTracing():
            return RealT(apply_uf(family, lift(x), vec))
    if hasattr(x, '_symnp_scalar'):
        return unary(family, x.v, vec)
    return None


class BVT(object):
    """Fixed-width unsigned bit-vector value."""
    __slots__ = ('e',)
    _vf_scalar = 'bv'

    def __init__(self, e):
        self.e = e

    @property
    def width(self):
        return self.e.size()

    def __copy__(self):
        return self

    def __deepcopy__(self, memo):
        return self

    def __repr__(self):
        return 'BVT(%s)' % (self.e,)

    def resize(self, w):
        k = self.e.size()
        if w == k:
            return self
        if w > k:
            return BVT(z3.ZeroExt(w - k, self.e))
        return BVT(z3.Extract(w - 1, 0, self.e))

    def _co(self, o):
        if type(o) is BVT:
            w = max(self.width, o.width)
            return self.resize(w).e, o.resize(w).e
        if isinstance(o, int):
            return self.e, z3.BitVecVal(o & ((1 << self.width) - 1), self.width)
        if hasattr(o, '_symnp_scalar'):
            return self._co(o.v)
        raise TypeError(type(o))

    def __add__(self, o):
        a, b = self._co(o)
        return BVT(a + b)

    __radd__ = __add__

    def __and__(self, o):
        a, b = self._co(o)
        return BVT(a & b)

    __rand__ = __and__

    def __or__(self, o):
        a, b = self._co(o)
        return BVT(a | b)

    __ror__ = __or__

    def __lshift__(self, k):
        if hasattr(k, '_symnp_scalar'):
            k = k.v
        return BVT(self.e << int(k))

    def __rshift__(self, k):
        if hasattr(k, '_symnp_scalar'):
            k = k.v
        return BVT(z3.LShR(self.e, int(k)))


class TermT(object):
    """Free term: op applied to argument terms/atoms; structural equality."""
    __slots__ = ('op', 'args')
    _vf_scalar = 'term'

    def __init__(self, op, *args):
        self.op = op
        self.args = tuple(args)

    def __copy__(self):
        return self

    def __deepcopy__(self, memo):
        return self

    def __eq__(self, o):
        return type(o) is TermT and self.op == o.op and self.args == o.args

    def __ne__(self, o):
        return not self.__eq__(o)

    def __hash__(self):
        return hash((self.op, self.args))

    def __repr__(self):
        if not self.args:
            return str(self.op)
        return '%s(%s)' % (self.op, ', '.join(map(repr, self.args)))


def is_custom(x):
    t = type(x)
    return t is RealT or t is BVT or t is TermT
