"""symnp: pure-Python model of the NumPy surface FlowCal uses (see DESIGN.md section 1)."""
import types as _types

import numpy as _real_numpy

from .core import (ModelGap, dtype, generic, ndarray, array, asarray, asanyarray, bool_, int8,
                   int16, int32, int64, uint8, uint16, uint32, uint64, float16, float32,
                   float64, object_, str_, intp, int_, double)
from .funcs import *          # noqa: F401,F403
from .funcs import (sum, min, max, all, any, abs, round, pi, e, inf, nan, newaxis, linspace, lazyarr)  # noqa
from . import funcs as _funcs
from . import core as _core
from . import scalars

__version__ = _real_numpy.__version__
integer = (int8, int16, int32, int64, uint8, uint16, uint32, uint64)
floating = (float16, float32, float64)
number = integer + floating
bool = bool_   # noqa: A001  (np.bool in NumPy 2)


class _MemmapFactory(object):
    """np.memmap(buf, dtype, mode, offset, shape, order): byte-exact decoding of a
    file object that exposes `_vf_bytes` (list of byte values or BVT) or supports
    seek/read; refuses, like NumPy, when the mapping exceeds the file."""

    def __call__(self, buf, dtype='uint8', mode='r+', offset=0, shape=None, order='C'):
        from ._memmap import memmap_decode
        return memmap_decode(buf, dtype, mode, offset, shape, order)


memmap = _MemmapFactory()


def fromfile(file, dtype=float, count=-1, sep='', offset=0):
    from ._memmap import fromfile_decode
    return fromfile_decode(file, dtype, count, sep, offset)


class _Random(object):
    def choice(self, a, size=None, replace=True, p=None):
        raise ModelGap('np.random.choice (stub per harness)')

    def seed(self, s=None):
        return None


random = _Random()


class _MaskedArray(object):
    """Minimal np.ma.masked_where result supporting np.interp pass-through."""
    _symnp_masked = True

    def __init__(self, data, mask):
        self.data = data
        self.mask = mask

    def _map(self, fn):
        d = _core._unop(self.data, fn, _core.FLOAT64)
        return _MaskedArray(d, self.mask)

    def filled(self, v):
        return where(self.mask, v, self.data)


class _Ma(object):
    MaskedArray = _MaskedArray

    @staticmethod
    def masked_where(cond, x):
        return _MaskedArray(x, cond)


ma = _Ma()


def __getattr__(name):
    # follow the installed NumPy: names it does not have do not exist here either
    if not hasattr(_real_numpy, name):
        raise AttributeError("module 'numpy' has no attribute %r" % (name,))
    raise ModelGap('numpy.%s is not modelled' % name)
