"""symnp functions: the part of the NumPy surface that FlowCal calls."""
import builtins
import itertools
import math
import operator

import z3

from .. import ch
from . import core
from .core import (ndarray, generic, dtype, array, asarray, ModelGap, _mk_scalar, _bare,
                   _cast, _operand, _wrap_out, _unop, _binop, _prod, _c_strides, _dtype,
                   _broadcast_to, _broadcast_shapes, _nonzero, _zero, _to_real, _is_symbolic,
                   BOOL, INT64, FLOAT64, OBJECT, STR)
from .scalars import RealT, BVT, TermT, is_custom, unary, lift, note_concrete as _sc_note
from .scalars import lift as scalars_lift

_bsum = builtins.sum
_bmin = builtins.min
_bmax = builtins.max
_ball = builtins.all
_bany = builtins.any
_babs = builtins.abs
_bround = builtins.round

pi = math.pi
e = math.e
inf = float('inf')
nan = float('nan')
newaxis = None


# ----------------------------------------------------------------- creation

def _shape_of(shape):
    if isinstance(shape, (tuple, list)):
        return tuple(int(_bare(s)) for s in shape)
    return (int(_bare(shape)),)


def zeros(shape, dtype=float, order='C'):
    dt = _dtype(dtype)
    shape = _shape_of(shape)
    return ndarray._from_flat([_zero(dt)] * _prod(shape), shape, dt)


def ones(shape, dtype=None, order='C'):
    dt = _dtype(dtype)
    shape = _shape_of(shape)
    return ndarray._from_flat([_cast(1, dt)] * _prod(shape), shape, dt)


def empty(shape, dtype=float, order='C'):
    return zeros(shape, dtype)


def full(shape, fill_value, dtype=None):
    shape = _shape_of(shape)
    dt = _dtype(dtype) if dtype is not None else core._infer_dtype([fill_value])
    return ndarray._from_flat([_cast(fill_value, dt)] * _prod(shape), shape, dt)


def _like(a, dtype, fillfn, subok=True):
    A = asarray(a)
    dt = A.dtype if dtype is None else _dtype(dtype)
    r = ndarray._from_flat([fillfn(dt)] * A.size, A.shape, dt)
    if subok and type(A) is not ndarray:
        r = r._view_as(type(A), template=A)
    return r


def zeros_like(a, dtype=None, order='K', subok=True):
    return _like(a, dtype, _zero, subok)


def empty_like(a, dtype=None, order='K', subok=True):
    return _like(a, dtype, _zero, subok)


def ones_like(a, dtype=None, order='K', subok=True):
    return _like(a, dtype, lambda dt: _cast(1, dt), subok)


def arange(start, stop=None, step=1, dtype=None):
    if stop is None:
        start, stop = 0, start
    start, stop, step = _bare(start), _bare(stop), _bare(step)
    if _ball(isinstance(v, int) or (ch.var_of(v) is not None and core._pykind(v) == 'i')
             for v in (start, stop, step)):
        vals = list(range(operator.index(start), operator.index(stop), operator.index(step)))
        dt = INT64
    else:
        q = core._e_div(stop - start, step)
        if type(q) is RealT:
            n = ch.pick(q.__ceil__(), 0, 65)       # symbolic length, bounded to 64 elements
        else:
            n = int(math.ceil(q))
        vals = [start + i * step for i in range(_bmax(n, 0))]
        dt = FLOAT64
    if dtype is not None:
        dt = _dtype(dtype)
        vals = [_cast(v, dt) for v in vals]
    return ndarray._from_flat(vals, (len(vals),), dt)


def linspace(start, stop, num=50, endpoint=True, retstep=False, dtype=None, axis=0):
    num = operator.index(_bare(num))
    if num < 0:
        raise ValueError('Number of samples, %d, must be non-negative.' % num)
    start, stop = _bare(start), _bare(stop)
    div = (num - 1) if endpoint else num
    symbolic = is_custom(start) or is_custom(stop) or _is_symbolic(start) or _is_symbolic(stop)
    if symbolic:
        start, stop = _to_real(start), _to_real(stop)
        step = (stop - start) / div if div > 0 else None
        vals = [start + step * i for i in range(num)] if div > 0 else [start] * num
        if endpoint and num > 1:
            vals[-1] = stop if type(stop) is RealT else RealT.of(stop)
        vals = [v if type(v) is RealT else RealT.of(v) for v in vals]
    else:
        start = float(start)
        stop = float(stop)
        if div > 0:
            step = (stop - start) / div
            vals = [start + i * step for i in range(num)]
            if endpoint and num > 1:
                vals[-1] = stop
        else:
            step = float('nan')
            vals = [start] * num
    r = ndarray._from_flat(vals, (num,), FLOAT64)
    if retstep:
        return r, step
    return r


def logspace(start, stop, num=50, base=10.0):
    return _binop('pow', base, linspace(start, stop, num))


def eye(n, m=None, dtype=float):
    m = n if m is None else m
    dt = _dtype(dtype)
    return ndarray._from_flat([_cast(1 if i == j else 0, dt) for i in range(n) for j in range(m)],
                              (n, m), dt)


def tile(a, reps):
    A = asarray(a)
    if isinstance(reps, (tuple, list)):
        if len(reps) != 1:
            raise ModelGap('tile with multi-dimensional reps')
        reps = reps[0]
    reps = operator.index(_bare(reps))
    if A.ndim > 1:
        raise ModelGap('tile of n-d array')
    el = A._elems() * reps
    return ndarray._from_flat(el, (len(el),), A.dtype)


def meshgrid(x, y):
    X, Y = asarray(x), asarray(y)
    xe, ye = X._elems(), Y._elems()
    xv = ndarray._from_flat([a for _ in ye for a in xe], (len(ye), len(xe)), X.dtype)
    yv = ndarray._from_flat([b for b in ye for _ in xe], (len(ye), len(xe)), Y.dtype)
    return [xv, yv]


def frompyfunc(func, nin, nout):
    if (nin, nout) != (1, 1):
        raise ModelGap('frompyfunc arity')

    def uf(a, out=None):
        A = asarray(a)
        vals = [func(x) for x in A._elems()]
        if out is not None:
            for p, v in zip(out._positions(), vals):
                out._buf[p] = v
            return out
        return ndarray._from_flat(vals, A.shape, OBJECT)
    return uf


# ----------------------------------------------------------------- reductions

def _axis_groups(A, axis):
    """-> (out_shape, list of element lists) reducing over `axis`."""
    if axis is None:
        return (), [A._elems()]
    if isinstance(axis, (tuple, list)):
        raise ModelGap('tuple axis')
    axis = operator.index(axis)
    if axis < 0:
        axis += A.ndim
    if not 0 <= axis < A.ndim:
        raise ValueError('axis %d is out of bounds for array of dimension %d' % (axis, A.ndim))
    out_shape = tuple(s for i, s in enumerate(A.shape) if i != axis)
    moved = A.transpose([i for i in range(A.ndim) if i != axis] + [axis])
    el = ndarray._make(moved._buf, moved._off, moved._shape, moved._strides, moved.dtype,
                       finalize=False)._elems()
    n = A.shape[axis]
    groups = [el[i * n:(i + 1) * n] for i in range(_prod(out_shape))]
    return out_shape, groups


def _reduce(a, axis, fn, rdt=None, wrap=True, keepdims=False):
    A = asarray(a)
    out_shape, groups = _axis_groups(A, axis)
    vals = [fn(g) for g in groups]
    dt = rdt if rdt is not None else A.dtype
    if callable(dt):
        dt = dt(A.dtype)
    if keepdims:
        raise ModelGap('keepdims')
    res = ndarray._from_flat(vals, out_shape, dt)
    if wrap and isinstance(a, ndarray) and type(a) is not ndarray:
        res = type(a).__array_wrap__(a, res, None)
        if isinstance(res, ndarray) and type(res) is ndarray and res.ndim == 0:
            return _mk_scalar(res._elems()[0], dt)
        return res
    if not out_shape:
        return _mk_scalar(vals[0], dt)
    return res


def _sum_list(g, start=0):
    acc = start
    first = True
    for v in g:
        if first and start == 0:
            acc = v
            first = False
        else:
            acc = acc + v
    return acc


def _sum_dtype(dt):
    if dt.kind == 'b':
        return INT64
    if dt.kind == 'i' and dt.itemsize < 8:
        return INT64
    if dt.kind == 'u' and dt.itemsize < 8:
        return dtype('uint64')
    return dt


def sum(a, axis=None, dtype=None, out=None, keepdims=False):
    A = asarray(a)
    rdt = _sum_dtype(A.dtype) if dtype is None else _dtype(dtype)

    def f(g):
        if A.dtype.kind == 'b':
            g = [_cast(x, INT64) for x in g]
        return _sum_list(g, _zero(rdt)) if g else _zero(rdt)
    return _reduce(A if not isinstance(a, ndarray) else a, axis, f, rdt)


def _div(a, b):
    return core._e_div(a, b)


def mean(a, axis=None, dtype=None, out=None, keepdims=False):
    A = asarray(a)
    rdt = FLOAT64 if A.dtype.kind in 'biu' else A.dtype

    def f(g):
        if not g:
            return float('nan')
        if A.dtype.kind == 'b':
            g = [_cast(x, INT64) for x in g]
        return _div(_sum_list([core._f(x) for x in g]), len(g))
    return _reduce(A if not isinstance(a, ndarray) else a, axis, f, rdt)


def _sqrt_e(x):
    r = unary('sqrt', x, vec=True)
    if r is not None:
        return r
    x = _bare(x)
    if x < 0:
        return float('nan')
    return math.sqrt(x)


def var(a, axis=None, ddof=0):
    A = asarray(a)

    def f(g):
        n = len(g)
        if n - ddof <= 0:
            return float('nan')
        m = _div(_sum_list([core._f(x) for x in g]), n)
        return _div(_sum_list([(core._f(x) - m) * (core._f(x) - m) for x in g]), n - ddof)
    return _reduce(A if not isinstance(a, ndarray) else a, axis, f, FLOAT64)


def std(a, axis=None, dtype=None, out=None, ddof=0, keepdims=False):
    A = asarray(a)

    def f(g):
        n = len(g)
        if n - ddof <= 0:
            return float('nan')
        m = _div(_sum_list([core._f(x) for x in g]), n)
        v = _div(_sum_list([(core._f(x) - m) * (core._f(x) - m) for x in g]), n - ddof)
        return _sqrt_e(v)
    return _reduce(A if not isinstance(a, ndarray) else a, axis, f, FLOAT64)


def _min_list(g):
    if not g:
        raise ValueError('zero-size array to reduction operation minimum which has no identity')
    m = g[0]
    for v in g[1:]:
        if v < m:
            m = v
    return m


def _max_list(g):
    if not g:
        raise ValueError('zero-size array to reduction operation maximum which has no identity')
    m = g[0]
    for v in g[1:]:
        if v > m:
            m = v
    return m


def min(a, axis=None, out=None, keepdims=False):
    return _reduce(a if isinstance(a, ndarray) else asarray(a), axis, _min_list)


def max(a, axis=None, out=None, keepdims=False):
    return _reduce(a if isinstance(a, ndarray) else asarray(a), axis, _max_list)


amin = min
amax = max


def all(a, axis=None, out=None, keepdims=False):
    def f(g):
        r = True
        for v in g:
            r = ch.b_and(r, v if core._pykind(v) == 'b' else (v != 0))
        return r
    return _reduce(a if isinstance(a, ndarray) else asarray(a), axis, f, BOOL)


def any(a, axis=None, out=None, keepdims=False):
    def f(g):
        r = False
        for v in g:
            r = ch.b_or(r, v if core._pykind(v) == 'b' else (v != 0))
        return r
    return _reduce(a if isinstance(a, ndarray) else asarray(a), axis, f, BOOL)


def cumsum(a, axis=None, dtype=None, out=None):
    A = asarray(a)
    if axis is not None and A.ndim != 1:
        raise ModelGap('cumsum along an axis of an n-d array')
    rdt = _sum_dtype(A.dtype) if dtype is None else _dtype(dtype)
    out_ = []
    acc = None
    for v in A._elems():
        if A.dtype.kind == 'b':
            v = _cast(v, INT64)
        acc = v if acc is None else acc + v
        out_.append(acc)
    res = ndarray._from_flat(out_, (len(out_),), rdt)
    return _wrap_out((a,), res)


def _stable_argsort(vals):
    idx = []
    for i, v in enumerate(vals):
        # insertion from the right keeps equal keys in input order
        j = len(idx)
        while j > 0 and vals[idx[j - 1]] > v:
            j -= 1
        idx.insert(j, i)
    return idx


def argsort(a, axis=-1, kind=None, order=None):
    A = asarray(a)
    if A.ndim != 1:
        raise ModelGap('argsort of n-d array')
    idx = _stable_argsort(A._elems())
    res = ndarray._from_flat(idx, (len(idx),), INT64)
    return _wrap_out((a,), res)


def _nan_last_key(v):
    return v


def sort(a, axis=-1):
    A = asarray(a)
    if A.ndim == 2 and axis in (-1, 1):
        rows = []
        for i in range(A.shape[0]):
            el = A[i]._elems()
            nn = [v for v in el if not (type(_bare(v)) is float and _bare(v) != _bare(v))]
            nans = [v for v in el if type(_bare(v)) is float and _bare(v) != _bare(v)]
            idx = _stable_argsort(nn)
            rows.append([nn[j] for j in idx] + nans)
        return ndarray._from_flat([v for r in rows for v in r], A.shape, A.dtype)
    if A.ndim != 1:
        raise ModelGap('sort of n-d array')
    el = A._elems()
    idx = _stable_argsort(el)
    return _wrap_out((a,), ndarray._from_flat([el[i] for i in idx], A.shape, A.dtype))


def nonzero(a):
    A = asarray(a)
    if A.dtype.kind != 'b':
        A = _binop('ne', A.view(ndarray), 0)
    return _nonzero(A)


def argmax(a, axis=None):
    A = asarray(a)
    if axis is not None and A.ndim != 1:
        raise ModelGap('argmax axis')
    el = A._elems()
    bi = 0
    for i in range(1, len(el)):
        if el[i] > el[bi]:
            bi = i
    return _mk_scalar(bi, INT64)


def argmin(a, axis=None):
    A = asarray(a)
    if axis is not None and A.ndim != 1:
        raise ModelGap('argmin axis')
    el = A._elems()
    bi = 0
    for i in range(1, len(el)):
        if el[i] < el[bi]:
            bi = i
    return _mk_scalar(bi, INT64)


# ------------------------------------------------- order statistics with hook replay

def _is_sub(a):
    return isinstance(a, ndarray) and type(a) is not ndarray


def _interp_sorted(s, q):
    """Linear-interpolation percentile (NumPy default method) of sorted list s."""
    n = len(s)
    pos = _div(q * (n - 1), 100) if not isinstance(q, (int, float)) else q * (n - 1) / 100.0
    lo = int(math.floor(pos))
    hi = _bmin(lo + 1, n - 1)
    frac = pos - lo
    a, b = core._f(s[lo]), core._f(s[hi])
    if frac == 0:
        return a
    # NumPy's _lerp: a + (b-a)*t, switching to b - (b-a)*(1-t) for t>=0.5
    d = b - a
    if frac >= 0.5:
        return b - d * (1 - frac)
    return a + d * frac


def percentile(a, q, axis=None, **kw):
    A = a if isinstance(a, ndarray) else asarray(a)
    if _is_sub(A):
        # hook sequence of the installed NumPy (DESIGN A.4): on inexact dtypes the
        # NaN check indexes the partitioned subclass array with (-1, Ellipsis);
        # the order statistics are then taken with integer index arrays.
        probe = A.copy()
        if A.dtype.kind == 'f':
            probe[(-1, Ellipsis)]
        if A.ndim >= 1 and A.shape[0] > 0:
            probe[array([0], dtype=INT64)]
    qs = asarray(q)
    qlist = [_bare(x) for x in qs._elems()]
    P = A.view(ndarray) if _is_sub(A) else A
    out_shape, groups = core_axis_groups(P, axis)
    res_q = []
    for qq in qlist:
        vals = []
        for g in groups:
            if not g:
                vals.append(float('nan'))
                continue
            s = [g[i] for i in _stable_argsort(g)]
            vals.append(_interp_sorted(s, qq))
        res_q.append(vals)
    if qs.ndim == 0:
        res = ndarray._from_flat(res_q[0], out_shape, FLOAT64)
    else:
        res = ndarray._from_flat([v for vals in res_q for v in vals],
                                 (len(qlist),) + tuple(out_shape), FLOAT64)
    if _is_sub(A):
        res = type(A).__array_wrap__(A, res, None)
    if isinstance(res, ndarray) and type(res) is ndarray and res.ndim == 0:
        return _mk_scalar(res._elems()[0], FLOAT64)
    return res


def core_axis_groups(A, axis):
    return _axis_groups(A, axis)


def median(a, axis=None, **kw):
    A = a if isinstance(a, ndarray) else asarray(a)
    if _is_sub(A) and A.ndim >= 1 and A.shape[0] > 0:
        # hook sequence (A.4): the partitioned copy is sliced around the middle
        probe = A.copy()
        k = A.shape[0] // 2
        if A.ndim == 1:
            probe[(slice(k, k + 1),)]
        else:
            probe[(slice(k, k + 1),) + (slice(None),) * (A.ndim - 1)]
    P = A.view(ndarray) if _is_sub(A) else A
    out_shape, groups = _axis_groups(P, axis)
    vals = []
    for g in groups:
        n = len(g)
        if n == 0:
            vals.append(float('nan'))
            continue
        s = [g[i] for i in _stable_argsort(g)]
        if n % 2:
            vals.append(core._f(s[n // 2]))
        else:
            vals.append(_div(core._f(s[n // 2 - 1]) + core._f(s[n // 2]), 2))
    res = ndarray._from_flat(vals, out_shape, FLOAT64)
    if _is_sub(A):
        res = type(A).__array_wrap__(A, res, None)
    if isinstance(res, ndarray) and type(res) is ndarray and res.ndim == 0:
        return _mk_scalar(res._elems()[0], FLOAT64)
    return res


# ----------------------------------------------------------------- element-wise math

def _math_unary(family, pyfn, domain_err=None):
    def f(x, out=None):
        if isinstance(x, lazyarr):
            return x._map(lambda v: f(v))

        def el(v):
            if family == 'log2' and ch.var_of(_bare(v)) is not None and core._pykind(_bare(v)) == 'i':
                # bit widths / ranges: exact value needed (ceil(log2) is a bit length)
                vv = _bare(v)
                if vv >= 1 and vv <= 128:
                    return math.log2(ch.pick(vv, 1, 129))
                return math.log2(ch.realize(vv))
            r = unary(family, v, vec=isinstance(x, ndarray) or isinstance(x, (list, tuple)))
            if r is not None:
                return r
            v = _bare(v)
            try:
                rr = pyfn(v)
                _sc_note(family, v, rr)
                return rr
            except (ValueError, OverflowError):
                if domain_err is not None:
                    return domain_err(v)
                raise
        return _unop(x, el, FLOAT64)
    f.__name__ = family
    return f


def _log_err(v):
    if v == 0:
        return -inf
    return nan


log = _math_unary('log', math.log, _log_err)
log10 = _math_unary('log10', math.log10, _log_err)
log2 = _math_unary('log2', math.log2, _log_err)
exp = _math_unary('exp', math.exp, lambda v: inf)
sqrt = _math_unary('sqrt', math.sqrt, lambda v: nan)
sin = _math_unary('sin', math.sin)
cos = _math_unary('cos', math.cos)


def _ceil_e(v):
    v = _bare(v)
    if type(v) is RealT:
        return v.__ceil__()
    if isinstance(v, float) and (math.isinf(v) or math.isnan(v)):
        return v
    if type(v) is float:
        return float(math.ceil(v))
    return math.ceil(v)


def _floor_e(v):
    v = _bare(v)
    if type(v) is RealT:
        return v.__floor__()
    if isinstance(v, float) and (math.isinf(v) or math.isnan(v)):
        return v
    if type(v) is float:
        return float(math.floor(v))
    return math.floor(v)


def ceil(x):
    return _unop(x, _ceil_e, FLOAT64)


def floor(x):
    return _unop(x, _floor_e, FLOAT64)


def round(x, decimals=0):
    def el(v):
        v = _bare(v)
        return float(_bround(v, decimals)) if type(v) is float else _bround(v, decimals)
    return _unop(x, el, FLOAT64)


around = round


def abs(x):
    A, _ = _operand(x)
    return _unop(x, lambda v: _babs(v), A.dtype)


absolute = abs


def sign(x):
    A, _ = _operand(x)

    def el(v):
        if type(v) is RealT:
            with ch.NoTracing():
                return RealT(z3.If(v.e > 0, z3.RealVal(1), z3.If(v.e < 0, z3.RealVal(-1),
                                                                 z3.RealVal(0))))
        v = _bare(v)
        if v > 0:
            return 1.0 if A.dtype.kind == 'f' else 1
        if v < 0:
            return -1.0 if A.dtype.kind == 'f' else -1
        return 0.0 if A.dtype.kind == 'f' else 0
    return _unop(x, el, A.dtype)


def isnan(x):
    def el(v):
        v = _bare(v)
        if type(v) is float:
            return v != v
        return False
    return _unop(x, el, BOOL)


def isinf(x):
    def el(v):
        v = _bare(v)
        return type(v) is float and math.isinf(v)
    return _unop(x, el, BOOL)


def isfinite(x):
    def el(v):
        v = _bare(v)
        return not (type(v) is float and (math.isinf(v) or v != v))
    return _unop(x, el, BOOL)


def isclose(a, b, rtol=1e-05, atol=1e-08):
    return _babs(_bare(a) - _bare(b)) <= atol + rtol * _babs(_bare(b))


def nextafter(a, b):
    return _mk_scalar(math.nextafter(float(_bare(a)), float(_bare(b))), FLOAT64)


def logical_and(a, b):
    A = _unop(a, lambda v: v if core._pykind(v) == 'b' else v != 0, BOOL, wrap=False)
    B = _unop(b, lambda v: v if core._pykind(v) == 'b' else v != 0, BOOL, wrap=False)
    r = _binop('and', A, B)
    return _wrap_out((a, b), r) if isinstance(r, ndarray) else r


def logical_or(a, b):
    A = _unop(a, lambda v: v if core._pykind(v) == 'b' else v != 0, BOOL, wrap=False)
    B = _unop(b, lambda v: v if core._pykind(v) == 'b' else v != 0, BOOL, wrap=False)
    r = _binop('or', A, B)
    return _wrap_out((a, b), r) if isinstance(r, ndarray) else r


def logical_not(a):
    return _unop(a, lambda v: ch.b_not(v if core._pykind(v) == 'b' else v != 0), BOOL)


def array_equal(a, b):
    try:
        A, B = asarray(a), asarray(b)
    except Exception:
        return False
    if tuple(A.shape) != tuple(B.shape):
        return False
    r = True
    for x, y in zip(A._elems(), B._elems()):
        r = ch.b_and(r, x == y)
    return bool(r) if not _is_symbolic(r) else r


def where(cond, x=None, y=None):
    if x is None and y is None:
        return nonzero(cond)
    C, X, Y = asarray(cond), asarray(x), asarray(y)
    shape = _broadcast_shapes(_broadcast_shapes(C.shape, X.shape), Y.shape)
    ce = _broadcast_to(C, shape)._elems()
    xe = _broadcast_to(X, shape)._elems()
    ye = _broadcast_to(Y, shape)._elems()
    dt = core._promote(X.dtype, Y.dtype)
    return ndarray._from_flat([a if c else b for c, a, b in zip(ce, xe, ye)], shape, dt)


def ndim(a):
    if isinstance(a, (ndarray, generic)):
        return a.ndim
    if isinstance(a, (list, tuple)):
        return asarray(a).ndim
    return 0


def shape(a):
    return tuple(asarray(a).shape)


def size(a):
    return asarray(a).size


def ravel(a, order='C'):
    return asarray(a).ravel()


def reshape(a, shape, order='C'):
    return asarray(a).reshape(shape)


def transpose(a, axes=None):
    return asarray(a).transpose() if axes is None else asarray(a).transpose(axes)


def roll(a, shift, axis=None):
    A = asarray(a)
    if A.ndim != 1:
        raise ModelGap('roll of n-d array')
    el = A._elems()
    n = len(el)
    if n == 0:
        return A.copy()
    k = operator.index(_bare(shift)) % n
    return ndarray._from_flat(el[-k:] + el[:-k] if k else list(el), A.shape, A.dtype)


def dot(a, b):
    A, B = asarray(a), asarray(b)
    if A.ndim == 2 and B.ndim == 2:
        if A.shape[1] != B.shape[0]:
            raise ValueError('shapes %s and %s not aligned' % (A.shape, B.shape))
        ae = A._elems()
        be = B._elems()
        n, k, m = A.shape[0], A.shape[1], B.shape[1]
        out = []
        for i in range(n):
            for j in range(m):
                acc = None
                for t in range(k):
                    term = core._f(ae[i * k + t]) * core._f(be[t * m + j])
                    acc = term if acc is None else acc + term
                out.append(acc if acc is not None else 0.0)
        rdt = core._promote(A.dtype, B.dtype)
        res = ndarray._from_flat(out, (n, m), rdt)
        return _wrap_out((a, b), res)
    if A.ndim == 1 and B.ndim == 1:
        return sum(_binop('mul', A.view(ndarray), B.view(ndarray)))
    raise ModelGap('dot for these ranks')


def cov(m, **kw):
    """Sample covariance, rows are variables (concrete or RealT)."""
    M = asarray(m)
    if M.ndim == 1:
        M = M.reshape(1, -1)
    nv, n = M.shape
    rows = [[core._f(x) for x in M[i]._elems()] for i in range(nv)]
    means = [_div(_sum_list(r), n) for r in rows]
    out = []
    for i in range(nv):
        for j in range(nv):
            s = _sum_list([(rows[i][t] - means[i]) * (rows[j][t] - means[j]) for t in range(n)]) \
                if n else 0.0
            out.append(_div(s, n - 1) if n > 1 else float('nan'))
    if nv == 1:
        return ndarray._from_flat(out, (), FLOAT64)
    return ndarray._from_flat(out, (nv, nv), FLOAT64)


def interp(x, xp, fp, left=None, right=None):
    XP, FP = asarray(xp), asarray(fp)
    xs, fs = XP._elems(), FP._elems()

    def el(v):
        v = _bare(v)
        if len(xs) == 0:
            raise ValueError('array of sample points is empty')
        if v <= xs[0]:
            return fs[0] if left is None or v == xs[0] else left
        if v >= xs[-1]:
            return fs[-1] if right is None or v == xs[-1] else right
        for i in range(len(xs) - 1):
            if xs[i] <= v and v < xs[i + 1]:
                slope = _div(fs[i + 1] - fs[i], xs[i + 1] - xs[i])
                return slope * (v - xs[i]) + fs[i]
        return fs[-1]
    if hasattr(x, '_symnp_masked'):
        return x._map(el)
    return _unop(x, el, FLOAT64)


# ----------------------------------------------------------------- histograms

def digitize(x, bins, right=False):
    X = asarray(x)
    B = asarray(bins)
    be = B._elems()
    if right:
        raise ModelGap('digitize right=True')

    def el(v):
        # number of edges <= v  (bins increasing)
        c = 0
        for e_ in be:
            if e_ <= v:
                c += 1
        return c
    return ndarray._from_flat([el(v) for v in X._elems()], X.shape, INT64)


def _edges_from(x_elems, bins, rng=None):
    if isinstance(bins, ndarray) or isinstance(bins, (list, tuple)):
        B = asarray(bins)
        if B.ndim != 1:
            raise ValueError('bins must be 1d')
        el = [core._f(v) for v in B._elems()]
        for i in range(len(el) - 1):
            if el[i + 1] < el[i]:
                raise ValueError('`bins` must increase monotonically, when an array')
        return el
    n = operator.index(_bare(bins))
    if n < 1:
        raise ValueError('`bins` must be positive, when an integer')
    if rng is not None:
        lo, hi = rng
    elif len(x_elems) == 0:
        lo, hi = 0.0, 1.0
    else:
        lo, hi = core._f(_min_list(x_elems)), core._f(_max_list(x_elems))
    if lo == hi:
        lo, hi = lo - 0.5, hi + 0.5
    return linspace(lo, hi, n + 1)._elems()


def _bin_of(v, edges):
    """Index of the bin holding v (last bin right-closed) or None."""
    nb = len(edges) - 1
    if v < edges[0] or v > edges[-1]:
        return None
    if v == edges[-1]:
        return nb - 1
    for i in range(nb):
        if edges[i] <= v and v < edges[i + 1]:
            return i
    return None


def histogram(a, bins=10, range=None, density=None, weights=None):
    A = asarray(a)
    el = A._elems()
    edges = _edges_from(el, bins, range)
    counts = [0] * (len(edges) - 1)
    for v in el:
        i = _bin_of(v, edges)
        if i is not None:
            counts[i] = counts[i] + 1
    return (ndarray._from_flat(counts, (len(counts),), INT64),
            ndarray._from_flat(edges, (len(edges),), FLOAT64))


def histogram2d(x, y, bins=10, range=None, density=None, weights=None):
    X, Y = asarray(x), asarray(y)
    xel, yel = X._elems(), Y._elems()
    if len(xel) != len(yel):
        raise ValueError('x and y must have the same length.')
    if isinstance(bins, (list, tuple)) and len(bins) == 2 or \
            (isinstance(bins, ndarray) and bins.ndim == 2 and bins.shape[0] == 2) or \
            (isinstance(bins, ndarray) and bins.dtype.kind == 'O' and bins.shape == (2,)):
        bx, by = bins[0], bins[1]
    elif isinstance(bins, (list, tuple, ndarray)):
        bx = by = bins
    else:
        bx = by = bins
    xe = _edges_from(xel, bx)
    ye = _edges_from(yel, by)
    nx, ny = len(xe) - 1, len(ye) - 1
    H = [0.0] * (nx * ny)
    for vx, vy in zip(xel, yel):
        i = _bin_of(vx, xe)
        j = _bin_of(vy, ye)
        if i is not None and j is not None:
            H[i * ny + j] = H[i * ny + j] + 1.0
    return (ndarray._from_flat(H, (nx, ny), FLOAT64),
            ndarray._from_flat(xe, (len(xe),), FLOAT64),
            ndarray._from_flat(ye, (len(ye),), FLOAT64))


# ----------------------------------------------------------------- printing options etc.

_printopts = {'precision': 8}


def get_printoptions():
    return dict(_printopts)


def set_printoptions(**kw):
    _printopts.update(kw)


def unique(a):
    A = asarray(a)
    el = A._elems()
    out = []
    for v in el:
        if not _bany(v == w for w in out):
            out.append(v)
    idx = _stable_argsort(out)
    return ndarray._from_flat([out[i] for i in idx], (len(out),), A.dtype)


def concatenate(arrs, axis=0):
    arrs = [asarray(a) for a in arrs]
    if _ball(a.ndim == 1 for a in arrs):
        el = [e for a in arrs for e in a._elems()]
        return ndarray._from_flat(el, (len(el),), arrs[0].dtype if arrs else FLOAT64)
    raise ModelGap('concatenate n-d')


# ----------------------------------------------------------------- lazy functional arrays

class lazyarr(object):
    """1-d array of symbolic length given by an index function (used when np.linspace is
    called with a symbolic number of points): element i is fn(i) for 0 <= i < n.
    Element-wise arithmetic composes lazily, so the length and the index can stay solver
    variables (DESIGN.md section 4/C19)."""
    _symnp_lazy = True
    ndim = 1

    def __init__(self, n, fn):
        self.n = n
        self.fn = fn

    @property
    def shape(self):
        return (self.n,)

    @property
    def size(self):
        return self.n

    def __len__(self):
        return self.n

    def __getitem__(self, i):
        if isinstance(i, slice):
            start = 0 if i.start is None else i.start
            step = 1 if i.step is None else i.step
            if i.stop is not None or step <= 0 or start < 0:
                raise ModelGap('lazy array slice form')
            n = self.n
            f = self.fn
            m = (n - start + step - 1) // step
            return lazyarr(m, lambda k: f(start + k * step))
        i = _bare(i)
        n = self.n
        if i < 0:
            i = i + n
        if i < 0 or i >= n:
            raise IndexError('index out of bounds')
        return self.fn(i)

    def __iter__(self):
        raise ModelGap('iteration over a lazy array of symbolic length')

    def _map(self, g):
        f = self.fn
        return lazyarr(self.n, lambda i: g(f(i)))

    def _zip(self, other, g, swap=False):
        if isinstance(other, lazyarr):
            f, h = self.fn, other.fn
            return lazyarr(self.n, (lambda i: g(h(i), f(i))) if swap else (lambda i: g(f(i), h(i))))
        if isinstance(other, (ndarray, list, tuple)):
            raise ModelGap('lazy array combined with an eager array')
        o = _bare(other)
        return self._map((lambda x: g(o, x)) if swap else (lambda x: g(x, o)))

    def __add__(self, o):
        return self._zip(o, lambda a, b: a + b)

    def __radd__(self, o):
        return self._zip(o, lambda a, b: a + b, True)

    def __sub__(self, o):
        return self._zip(o, lambda a, b: a - b)

    def __rsub__(self, o):
        return self._zip(o, lambda a, b: a - b, True)

    def __mul__(self, o):
        return self._zip(o, lambda a, b: a * b)

    def __rmul__(self, o):
        return self._zip(o, lambda a, b: a * b, True)

    def __truediv__(self, o):
        return self._zip(o, lambda a, b: core._e_div(a, b))

    def __rtruediv__(self, o):
        return self._zip(o, lambda a, b: core._e_div(a, b), True)

    def __pow__(self, o):
        return self._zip(o, lambda a, b: core._e_pow(a, b))

    def __rpow__(self, o):
        return self._zip(o, lambda a, b: core._e_pow(a, b), True)

    def __neg__(self):
        return self._map(lambda x: -x)


_eager_linspace = linspace


def linspace(start, stop, num=50, endpoint=True, retstep=False, dtype=None, axis=0):  # noqa: F811
    n = _bare(num)
    if ch.var_of(n) is None or not endpoint or retstep:
        return _eager_linspace(start, stop, num, endpoint, retstep, dtype, axis)
    a, b = _to_real(_bare(start)), _to_real(_bare(stop))
    a = a if type(a) is RealT else RealT.of(a)
    b = b if type(b) is RealT else RealT.of(b)
    if n < 0:
        raise ValueError('Number of samples, %s, must be non-negative.' % 'n')
    nm1 = RealT.of(n) - 1

    def elem(i):
        # NumPy: start + i*step with step = (stop-start)/(num-1); the last sample is `stop`
        with ch.NoTracing():
            ie = scalars_lift(i)
            last = z3.simplify(ie == scalars_lift(n) - 1)
            inner = a.e + ie * ((b.e - a.e) / nm1.e)
            return RealT(z3.If(last, b.e, inner) if not z3.is_false(last) else inner)
    return lazyarr(n, elem)


def _minmax2(op):
    def f(a, b):
        def pick2(x, y):
            if type(x) is RealT or type(y) is RealT:
                with ch.NoTracing():
                    ex, ey = scalars_lift(x), scalars_lift(y)
                    if ex is not None and ey is not None:
                        c = (ex >= ey) if op == 'max' else (ex <= ey)
                        return RealT(z3.If(c, ex, ey))
            if op == 'max':
                return x if x >= y else y
            return x if x <= y else y
        A, B_ = _operand(a)[0], _operand(b)[0]
        shape = _broadcast_shapes(A.shape, B_.shape)
        ea, eb = _broadcast_to(A, shape)._elems(), _broadcast_to(B_, shape)._elems()
        out = [pick2(x, y) for x, y in zip(ea, eb)]
        rdt = core._promote(A.dtype, B_.dtype)
        if not shape:
            return _mk_scalar(out[0], rdt)
        return _wrap_out((a, b), ndarray._from_flat(out, shape, rdt))
    return f


maximum = _minmax2('max')
minimum = _minmax2('min')


def clip(a, lo, hi):
    r = a
    if lo is not None:
        r = maximum(r, lo)
    if hi is not None:
        r = minimum(r, hi)
    return r


def allclose(a, b, rtol=1e-05, atol=1e-08, equal_nan=False):
    A, B_ = asarray(a), asarray(b)
    shape = _broadcast_shapes(A.shape, B_.shape)
    ea, eb = _broadcast_to(A, shape)._elems(), _broadcast_to(B_, shape)._elems()
    r = True
    for x, y in zip(ea, eb):
        x, y = core._f(x), core._f(y)
        d = x - y
        d = -d if d < 0 else d
        ay = -y if y < 0 else y
        r = ch.b_and(r, d <= atol + rtol * ay)
    return r
