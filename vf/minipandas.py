"""Minimal stand-in for the pandas surface used by FlowCal.excel_ui's table processing
(process_*_table, add_*_stats, generate_histograms_table).  Values are arbitrary Python
objects (symbolic strings, free terms ...).  Not a model of pandas I/O."""
import math

__version__ = '0.0-model'


def isnull(x):
    if x is None:
        return True
    if type(x) is float and x != x:
        return True
    return False


def notnull(x):
    if isinstance(x, Index):
        return [not isnull(v) for v in x.values]
    return not isnull(x)


class Index(object):
    def __init__(self, values, name=None, names=None):
        self.values = list(values)
        self.name = name
        self.names = names

    def __iter__(self):
        return iter(self.values)

    def __len__(self):
        return len(self.values)

    def __getitem__(self, i):
        return self.values[i]

    @property
    def has_duplicates(self):
        return len(set(self.values)) != len(self.values)


class MultiIndex(Index):
    @classmethod
    def from_arrays(cls, arrays, names=None):
        return cls(list(zip(*arrays)) if arrays and len(arrays[0]) else [], names=names)


class Row(object):
    """One row (what iterrows() / .loc[id] hand out)."""

    def __init__(self, frame, pos):
        self._f = frame
        self._pos = pos

    def __getitem__(self, col):
        if col not in self._f._data:
            raise KeyError(col)
        return self._f._data[col][self._pos]


class _Col(object):
    def __init__(self, frame, col):
        self._f, self._c = frame, col

    def __getitem__(self, rid):
        return self._f._data[self._c][self._f._pos(rid)]


class _Loc(object):
    def __init__(self, frame):
        self._f = frame

    def __getitem__(self, key):
        if isinstance(key, tuple) and len(key) == 2 and not isinstance(self._f.index, MultiIndex):
            rid, col = key
            return self._f._data[col][self._f._pos(rid)]
        return Row(self._f, self._f._pos(key))

    def __setitem__(self, key, value):
        f = self._f
        if isinstance(f.index, MultiIndex):
            rid, cols = key
            if rid not in f.index.values:
                f.index.values.append(rid)
                for c in f.columns:
                    f._data[c].append(float('nan'))
            p = f._pos(rid)
            if hasattr(value, '_vf_seq'):
                vals = [value.item(i) for i in range(len(cols))]
            elif hasattr(value, '__iter__'):
                vals = list(value)
            else:
                vals = [value] * len(cols)
            for c, v in zip(cols, vals):
                f._data[c][p] = v
            return
        rid, col = key
        f._data[col][f._pos(rid)] = value


class DataFrame(object):
    def __init__(self, data=None, index=None, columns=None):
        self._data = {}
        if isinstance(data, dict):
            self.columns = list(data.keys()) if columns is None else list(columns)
            n = len(next(iter(data.values()))) if data else 0
            for c in self.columns:
                self._data[c] = list(data[c])
            self.index = index if isinstance(index, Index) else Index(
                index if index is not None else range(n))
        else:
            self.columns = list(columns) if columns is not None else []
            self.index = index if isinstance(index, Index) else Index(index or [])
            for c in self.columns:
                self._data[c] = [float('nan')] * len(self.index)

    def _pos(self, rid):
        for i, v in enumerate(self.index.values):
            if v == rid:
                return i
        raise KeyError(rid)

    @property
    def empty(self):
        return len(self.index) == 0

    def __len__(self):
        return len(self.index)

    def iterrows(self):
        for i, rid in enumerate(self.index.values):
            yield rid, Row(self, i)

    @property
    def loc(self):
        return _Loc(self)

    @property
    def at(self):
        return _Loc(self)

    def __getitem__(self, col):
        if col not in self._data:
            raise KeyError(col)
        return _Col(self, col)

    def __setitem__(self, col, value):
        n = len(self.index)
        if isinstance(value, (list, tuple)):
            if len(value) != n:
                raise ValueError('Length of values does not match length of index')
            vals = list(value)
        else:
            vals = [value] * n
        if col not in self._data:
            self.columns.append(col)
        self._data[col] = vals

    def cell(self, rid, col):
        return self._data[col][self._pos(rid)]
