#!/usr/bin/env python3
"""Run the quick check of each seeded change's property with the change applied to /repo
(always restored afterwards) and record the outcome in seeded/<id>/meta.json.
usage: runseeds.py [id ...]   (default: all)"""
import json
import os
import re
import subprocess
import sys

V = os.path.dirname(os.path.dirname(os.path.abspath(__file__)))


def sh(cmd, **kw):
    return subprocess.run(cmd, shell=True, stdout=subprocess.PIPE, stderr=subprocess.STDOUT,
                          universal_newlines=True, **kw)


def main():
    ids = sys.argv[1:] or sorted(os.listdir(os.path.join(V, 'seeded')))
    for sid in ids:
        d = os.path.join(V, 'seeded', sid)
        mp = os.path.join(d, 'meta.json')
        if not os.path.exists(mp):
            continue
        meta = json.load(open(mp))
        prop = meta['property']
        if sh('git -C /repo status --porcelain').stdout.strip():
            print('/repo not clean; stopping')
            return 1
        try:
            a = sh('git -C /repo apply %s' % os.path.join(d, 'patch.diff'))
            if a.returncode:
                print(sid, 'patch does not apply', a.stdout[:200])
                continue
            r = sh('VF_FIRST_VIOLATION=1 ./check %s --tier quick' % prop, cwd=V)
        finally:
            sh('git -C /repo reset -q --hard HEAD')
        conds = re.findall(r'condition=(\S+) what=(.*)', r.stdout)
        meta['detected_by'] = {'exit_code': r.returncode,
                               'violations': [{'condition': c, 'what': w} for c, w in conds][:8],
                               'command': './check %s --tier quick (with patch.diff applied to '
                                          '/repo, restored afterwards)' % prop}
        json.dump(meta, open(mp, 'w'), indent=1)
        print(sid, 'exit', r.returncode, [c for c, _ in conds][:3], flush=True)
    return 0


if __name__ == '__main__':
    sys.exit(main())
