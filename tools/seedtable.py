#!/usr/bin/env python3
"""Print the markdown detection table (seed | change | caught by) from seeded/*/meta.json."""
import json
import os
import re
import sys

V = os.path.dirname(os.path.dirname(os.path.abspath(__file__)))
for sid in sorted(os.listdir(os.path.join(V, 'seeded'))):
    if sys.argv[1:] and not any(sid.endswith(x) for x in sys.argv[1:]):
        continue
    m = json.load(open(os.path.join(V, 'seeded', sid, 'meta.json')))
    t = (m.get('needs_to_manifest') or '').strip().splitlines()[0] if m.get('needs_to_manifest') else ''
    t = re.sub(r'^#\s*', '', t)
    t = re.sub(r'^(C\d\d\s*)?(/\s*)?(seed|change|Change|patch)\s*\d\s*[—\-–]+\s*', '', t)
    t = re.sub(r'^C\d\d\s+(seed|change|demo)\s*\d\s*[—\-–]+\s*', '', t)
    t = re.split(r'\*\*', t)[0].strip()
    db = m.get('detected_by') or {}
    conds = sorted(set(v['condition'] for v in db.get('violations', [])))
    print('| %s | %s | %s |' % (sid, t[:110], ', '.join(conds[:3]) or ('exit %s' % db.get('exit_code'))))
