#!/usr/bin/env python
"""Debug aid: run one condition in-process with CrossHair's debug log and print the lines that
explain a CANNOT_CONFIRM (unknown satisfiability, unsupported, ignored paths).
usage: .venv/bin/python tools/dbgcond.py Cnn cond_name [tier]"""
import importlib
import io
import os
import re
import sys

sys.path.insert(0, os.path.dirname(os.path.dirname(os.path.abspath(__file__))))
from vf import driver, rehost, harness           # noqa: E402
from vf.main import PROPS                         # noqa: E402


def main():
    prop, name = sys.argv[1], sys.argv[2]
    tier = sys.argv[3] if len(sys.argv) > 3 else 'quick'
    mod = importlib.import_module(PROPS[prop])
    cond = [c for c in mod.conditions(tier) if c.name == name][0]
    pandas_mod = None
    if cond.pandas:
        from vf import minipandas
        pandas_mod = minipandas
    env = rehost.Env(modules=cond.modules, repo='/repo', pandas=pandas_mod)
    if cond.setup:
        cond.setup(env)
    harness.H.reset(env, '/dev/null')
    fn = cond.make(env)
    from crosshair.util import set_debug
    set_debug(True)
    err = io.StringIO()
    old = sys.stderr
    sys.stderr = err
    try:
        msgs = driver._run_crosshair(cond, fn, cond.timeout)
    finally:
        sys.stderr = old
    pat = re.compile(r'unknown|Unknown|unsupported|Unsupported|Ignor|ignor|abort|Abort|timeout|Timeout|exhaust')
    lines = err.getvalue().splitlines()
    print(len(lines), 'debug lines')
    n = 0
    for i, l in enumerate(lines):
        if pat.search(l):
            print(l[:400])
            n += 1
            if n > 40:
                break
    print(msgs)
    print(harness.H.stats['paths'], harness.H.stats['paths_done'])


main()
