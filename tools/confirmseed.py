#!/usr/bin/env python3
"""Confirm a seeded change in a scratch worktree and file it under /verif/seeded/.

usage: confirmseed.py <Cnn> <n> <patch.diff> <demo.py> [notes.md]
Checks (all in a scratch git worktree of /repo's HEAD under /tmp, removed afterwards):
  1. the patch applies to the current HEAD;
  2. with the patch the existing test-suite passes exactly the tests it passes without it;
  3. the demonstration exits 1 with the patch and 0 without it.
Writes seeded/<Cnn>_<n>/{patch.diff,demo.py,notes.md,meta.json} when all hold.
"""
import json
import os
import re
import shutil
import subprocess
import sys

VERIF = os.path.dirname(os.path.dirname(os.path.abspath(__file__)))
WT = '/tmp/wt_confirm'
PY = '/venv/bin/python'


def sh(cmd, cwd=None, timeout=1800):
    p = subprocess.run(cmd, shell=True, cwd=cwd, stdout=subprocess.PIPE, stderr=subprocess.STDOUT,
                       timeout=timeout, universal_newlines=True)
    return p.returncode, p.stdout


def passed_set(cwd):
    rc, out = sh('%s -m pytest -q -p no:cacheprovider --timeout=900 -rA 2>&1 | grep "^PASSED" '
                 '| sort' % PY, cwd=cwd)
    return set(l.split()[1] for l in out.splitlines() if l.startswith('PASSED'))


def main():
    prop, n, patch, demo = sys.argv[1:5]
    notes = sys.argv[5] if len(sys.argv) > 5 else None
    sh('git -C /repo worktree remove --force %s' % WT)
    shutil.rmtree(WT, ignore_errors=True)
    rc, out = sh('git -C /repo worktree add --detach %s HEAD' % WT)
    if rc:
        print(out)
        return 2
    try:
        base_file = '/tmp/w/baseline_pass_%s.json' % sh('git -C /repo rev-parse HEAD')[1].strip()[:10]
        if os.path.exists(base_file):
            base = set(json.load(open(base_file)))
        else:
            base = passed_set(WT)
            os.makedirs('/tmp/w', exist_ok=True)
            json.dump(sorted(base), open(base_file, 'w'))
        rc0, o0 = sh('%s %s' % (PY, demo), cwd=WT)
        rc, out = sh('git apply %s' % patch, cwd=WT)
        if rc:
            print('PATCH DOES NOT APPLY to HEAD:\n' + out)
            return 3
        with_patch = passed_set(WT)
        rc1, o1 = sh('%s %s' % (PY, demo), cwd=WT)
        sh('git checkout -- .', cwd=WT)
        rc2, o2 = sh('%s %s' % (PY, demo), cwd=WT)
        lost = sorted(base - with_patch)
        ok = (not lost) and rc1 == 1 and rc2 == 0 and rc0 == 0
        print('%s #%s: baseline_pass=%d with_patch_pass=%d lost=%s demo(patched)=%d demo(clean)=%d -> %s'
              % (prop, n, len(base), len(with_patch), lost[:3], rc1, rc2, 'CONFIRMED' if ok else 'REJECTED'))
        if not ok:
            print(o1[-600:])
            return 1
        d = os.path.join(VERIF, 'seeded', '%s_%s' % (prop, n))
        os.makedirs(d, exist_ok=True)
        shutil.copy(patch, os.path.join(d, 'patch.diff'))
        shutil.copy(demo, os.path.join(d, 'demo.py'))
        if notes and os.path.exists(notes):
            shutil.copy(notes, os.path.join(d, 'notes.md'))
        first = ''
        if notes and os.path.exists(notes):
            first = ' '.join(open(notes).read().split())[:600]
        meta = {'property': prop, 'needs_to_manifest': first,
                'confirmed': {'head': sh('git -C /repo rev-parse HEAD')[1].strip(),
                              'tests_passing_without': len(base),
                              'tests_passing_with': len(with_patch), 'tests_lost': lost,
                              'demo_exit_with_patch': rc1, 'demo_exit_without_patch': rc2,
                              'commands': ['git worktree add --detach /tmp/wt_confirm HEAD',
                                           'git apply patch.diff',
                                           '/venv/bin/python -m pytest -q -p no:cacheprovider -rA',
                                           '/venv/bin/python demo.py  (expect exit 1)',
                                           'git checkout -- . ; /venv/bin/python demo.py  (expect exit 0)']},
                'detected_by': None}
        mp = os.path.join(d, 'meta.json')
        if os.path.exists(mp):
            old = json.load(open(mp))
            meta['detected_by'] = old.get('detected_by')
        json.dump(meta, open(mp, 'w'), indent=1)
        return 0
    finally:
        sh('git -C /repo worktree remove --force %s' % WT)
        shutil.rmtree(WT, ignore_errors=True)


if __name__ == '__main__':
    sys.exit(main())
