#!/usr/bin/env python3
"""Regenerates /verif/MANIFEST.json from the table below (run after adding a property)."""
import json
import os

HERE = os.path.dirname(os.path.dirname(os.path.abspath(__file__)))
props = [json.loads(l) for l in open(os.path.join(HERE, 'properties.jsonl'))]

TECH = 'bounded symbolic execution of the real source (CrossHair 0.0.110 + z3) re-hosted on a NumPy model'

CLAIMED = {
    'C01': dict(
        text='For every enumerated layout the z3 bit-vector query "some file bytes make a decoded '
             'cell differ from the positional specification" is unsat, so decoding is exact for '
             'all 2^(8n) files of that layout; layout refusals, HEADER/TEXT offset priority and '
             'header field parsing are decided by CrossHair over symbolic offsets, widths and '
             'keyword spellings. Bounded (D<=2/3 parameters, N<=2 events): a bounded pass, not a '
             'proof for all sizes.',
        note='Trusted: symnp model of the NumPy calls in read_fcs_data_segment (np.memmap contract '
             'probed against the installed NumPy), z3, CrossHair. Assumes the segment readers '
             'compose as their own conditions establish. Outside: N>2, D>3, real mmap, log2 '
             'rounding of $PnR>2^53.',
        ref='4/C01', technique='direct z3 bit-vector queries over the symbolically executed real '
                               'decoder + CrossHair on FCSFile.__init__'),
    'C04': dict(
        text='One CrossHair condition per production of the indexing grammar (rows form x cols '
             'form, get and set, chains of two/three): every integer, slice bound, mask bit, list '
             'element kind and name is a solver variable; "confirmed over all paths" means the '
             'alignment oracle holds for all keys of that production within the stated bounds on '
             'a 3x3 (3x4) sample.',
        note='Trusted: symnp indexing (compared with the installed NumPy on an exhaustive key grid '
             'of ~2400 get/set keys on every run), CrossHair, z3. Outside: larger shapes, keys '
             'with more than two entries.',
        ref='4/C04', technique=TECH),
    'C08': dict(
        text='start_end, high_low and ellipse are executed symbolically with symbolic event '
             'counts, values, thresholds, channel forms and ellipse parameters (reals with '
             'cos/sin/log10/10** as uninterpreted functions); the postcondition is the documented '
             'predicate. IEEE special values (NaN, inf) enter through a symbolic index into a '
             'table.',
        note='Trusted: symnp, CrossHair, z3. Ellipse is decided over the reals (FP rounding on the '
             'boundary is outside). N<=4 (start_end), 2x2/3x3 (high_low), N<=2 (ellipse).',
        ref='4/C08', technique=TECH + '; real arithmetic with uninterpreted transcendental functions'),
    'C14': dict(
        text='The real TEXT parser runs on a symbolic string (<=8/11 characters over {delimiter, '
             'two symbols}) and must agree with an independent left-to-right tokenizer or raise '
             'ValueError; round trips of tokens with symbolic interior/trailing delimiter runs; '
             'FCSFile merge/ANALYSIS call sites with symbolic offsets.',
        note='Trusted: CrossHair string model, z3, the reference tokenizer (shown in evidence). '
             'Outside: longer segments.',
        ref='4/C14', technique=TECH + ' (z3 string theory)'),
}

CLAIMED['C17'] = dict(
    text='FCSData.__new__, the time/date parsers, acquisition_time and the accessors are executed '
         'symbolically over a stub FCSFile: presence of each optional keyword is a symbolic '
         'boolean, numeric values are abstract numerals (symbolic well-formedness flag and value), '
         'time/date strings are assembled from token tables by symbolic indices; postconditions: '
         'attribute == documented function of the keywords, None for missing/unparseable, loading '
         'and acquisition_time never raise.',
    note='Trusted: CrossHair, z3, CPython datetime (run for real on each path\'s concrete '
         'strings), the abstract-numeral stub for float(). Outside: time/date spellings not in the '
         'tables, more than 11 channels.',
    ref='4/C17', technique=TECH)

CLAIMED['C03'] = dict(
    text='to_rfi is executed symbolically with real-valued events, a0, a1, gain (10**x an '
         'uninterpreted function), resolutions from a table, symbolic presence of gain, explicit '
         'override vs taken-from-sample per setting and 8-13 channel selection forms; converted '
         'cells must equal the amplifier law over the reals, every other cell/metadata be '
         'unchanged; batch == sequential in any order == by name == by position; inconsistent '
         'lengths refused.',
    note='Trusted: symnp, CrossHair, z3 (nonlinear real arithmetic). Decided over the reals: IEEE '
         'rounding of the law is outside (C07 covers exactness of ranges). 2 events x 3 channels.',
    ref='4/C03', technique=TECH + '; real arithmetic with 10**x uninterpreted')
CLAIMED['C06'] = dict(
    text='to_mef is executed in the free term algebra: events are opaque atoms, the k<=3 curves '
         'are distinct uninterpreted symbols; pairing order, name/position spelling, requested '
         'subset/order, uncovered requests and unequal list lengths are symbolic. An equality '
         'proved on terms holds for every interpretation of the curves.',
    note='Trusted: symnp, CrossHair. 2 events x 4 channels, k<=3. The partial built by '
         'get_transform_fxn is exercised in C02.',
    ref='4/C06', technique='symbolic execution (CrossHair) in the free term algebra')
CLAIMED['C07'] = dict(
    text='Bitwise equality of converted range limits and converted limit events is decided by '
         'congruence over path-tagged transcendental functions (array vs scalar evaluation are '
         'different symbols with no axiom relating them); saturation-gate commutation follows by '
         'order reasoning under a stated monotonicity assumption. Found and led to the repair of a '
         'genuine 1-ulp defect (see known_findings.json).',
    note='Assumes NumPy vector pow/exp is position- and length-independent (re-checked concretely '
         'on every run) and that the rounded law is strictly increasing on occurring arguments. '
         'Trusted: symnp, CrossHair, z3.',
    ref='4/C07', technique='congruence over evaluation-path-tagged uninterpreted functions '
                           '(CrossHair + z3)')
CLAIMED['C12'] = dict(
    text='All ten statistics are executed symbolically on 3x2 (4x2) symbolic events (integers '
         'with ties / positive reals), three containers and seven channel forms, against textbook '
         'definitions over the reals; the model replays the NumPy subclass hook sequence that '
         'matters (percentile on a float sample); plus, on a concrete 3x4 sample, every '
         'arrangement of 3 or 4 of the four channels (positions, names, mixed) against the '
         'single-channel results.',
    note='Trusted: symnp reductions and the scipy.stats.gmean/mode stubs, CrossHair, z3. FP '
         'rounding of reductions is outside.',
    ref='4/C12', technique=TECH)

CLAIMED['C05'] = dict(
    text='density2d is executed symbolically in two halves: the event-to-bin mapping on a 2x3 grid '
         'with events over 13 symbolic position classes (interior, right/top edge, corner, inner '
         'edge, outside) judged against the returned bin_mask through an independent binning '
         'oracle; and the cut on a 2x2 grid where every bin density and the gate fraction are '
         'solver reals (the Gaussian filter is a stub returning arbitrary non-negative values, so '
         'the cut is proved for every smoothing) and the kernel width is one of five forms (quick: '
         'two of the five per assignment job).',
    note='Trusted: symnp histogram2d/digitize/argsort models, CrossHair, z3. Stub smoothing is '
         'normalised to total 1 (WLOG). Outside: FP rounding of f*n, contour geometry, larger '
         'grids, sample-derived bins (C19).',
    ref='4/C05', technique=TECH + '; real arithmetic')
CLAIMED['C09'] = dict(
    text='PARTIAL: the 5% recovery accuracy depends on SciPy\'s compiled optimizer and is NOT '
         'decided. Decided symbolically with minimize stubbed to any point of the box it is '
         'given: oddness/zero/monotonicity of the standard curve, bead model = curve - '
         'autofluorescence, non-negativity and feasibility of every generating triple (read from '
         'the bounds the real code passes), objective = 0 at the generating parameters and >= 0, '
         'argument checks.',
    note='Undecided half first: optimizer convergence (initial guess, tolerances). Trusted: '
         'axioms exp/log inverse+monotone, x**m = exp(m log x); CrossHair, z3.',
    ref='4/C09', technique=TECH + '; uninterpreted exp/log with axioms; optimizer stubbed')
CLAIMED['C18'] = dict(
    text='PARTIAL: existence/convergence of the root p and the 1e-4*M accuracy of the 1000-point '
         'interpolated inverse are NOT decided. Decided symbolically: parameter rules for 1-2 data '
         'sets with/without range and overrides, refusal of invalid parameters, the published '
         'biexponential, x(W)=0, strict monotonicity for every p>0, the tabulated inverse over '
         'any strictly increasing transform (4-point table: nodes exact, non-decreasing, masks '
         'exactly outside [x(0),x(M)]), table wiring (>=1000 points on [0,M]), scale clipping.',
    note='Undecided half first: root finder and interpolation accuracy. Trusted: 10**/log10 '
         'axioms, CrossHair, z3, matplotlib base-class stubs.',
    ref='4/C18', technique=TECH + '; uninterpreted 10**x/log10 with axioms; root finder stubbed')
CLAIMED['C19'] = dict(
    text='hist_bins is executed with np.linspace as a lazy functional array, so bin count n, '
         'resolution R, range limits and the edge index i are solver variables (linear and log '
         'scales: n <= 2^19, R <= 2^18); n+1 edges, strict monotonicity and coverage are proved '
         'for a symbolic index, centring for default n; logicle edges equal the biexponential '
         'image of the uniform display grid for R in {4,8,1000}, n in {1,2,3,8,R} with T/M/W '
         'derived or overridden; channel lists, broadcasting, unknown scale.',
    note='Trusted: lazy linspace model, 10**/log10 axioms, CrossHair, z3 (nonlinear). Outside: '
         'IEEE rounding of linspace; logicle root p (any p>0).',
    ref='4/C19', technique=TECH + '; lazy functional arrays with symbolic length')

CLAIMED['C13'] = dict(
    text='Aliasing is executed on a model with NumPy\'s view/copy semantics and real Python '
         'metadata containers: for transforms, gates, statistics, calibration steps, bin '
         'generators and the plotting prologues, with symbolic options (scale spelling, range '
         'limits incl. <= 0, container, dtype, channel and bins forms), a deep fingerprint of '
         'every argument is compared before/after; results are mutated to show they share '
         'nothing; 13x13 ordered query pairs are compared with a fresh sample. Found and led to '
         'the repair of three genuine mutation defects.',
    note='Trusted: symnp view/copy semantics (exercised by the C04 indexing validation), stubs '
         'for scipy/sklearn/matplotlib. Plot functions other than density2d/hist1d are listed as '
         'uncovered in the evidence (their bodies are matplotlib calls).',
    ref='4/C13', technique=TECH + ' with executed aliasing')
CLAIMED['C20'] = dict(
    text='Histories of up to two (thorough three) symbolic analysis steps followed by a symbolic '
         'choice of copy/copy.copy/deepcopy/view/pickle: events, dtype tag and all 14 state '
         'fields (each with a distinct non-default value) equal, independence in both directions; '
         'FCSFile == / != / hash with one symbolic event in both files.',
    note='Pickling is modelled at the __reduce__/__setstate__ level (CPython\'s byte-level '
         'protocols are not executed symbolically; replays use the real pickle with protocols '
         '0-5). Trusted: symnp subclass protocol, CrossHair.',
    ref='4/C20', technique=TECH + '; histories as symbolic choices')

CLAIMED['C16'] = dict(
    text='The real reader chain (FCSFile.__init__, header/TEXT/DATA readers) runs on concrete '
         'well-formed images of four layouts served by a model file whose length is a solver '
         'variable: every crash point 0..length is a path class (the solver partitions the cut at '
         'read boundaries and inside TEXT); single-field corruptions of $TOT, $PAR, $PnB and the '
         'HEADER/TEXT offsets take values chosen by a symbolic index from {true-4..true+4, 0, 1, '
         '2x, 3x+1, 99999999}. Postcondition: an exception, or exactly the intact keywords and '
         'events.',
    note='Trusted: model file (seek/read/readinto) and np.memmap contract bounded by the file '
         'length, CrossHair, z3. The one-byte end-convention ambiguity (declared extent one byte '
         'longer than the events) is accepted as documented. Outside: other segment orders, '
         'simultaneous corruptions, larger files.',
    ref='4/C16', technique=TECH + '; symbolic crash point / fault value')

CLAIMED['C10'] = dict(
    text='Orchestration level: the real process_samples_table / process_beads_table / '
         'add_samples_stats / generate_histograms_table run on a small pandas stand-in with every '
         'library step a free term constructor; units strings come from a 13-entry table (case '
         'variants, padding, unknown) by symbolic index, data type, event count, instrument and '
         'calibration presence are symbolic; the result term must equal the documented hand '
         'composition, which then holds for every interpretation of the steps.',
    note='The numeric content of each step is covered by C03/C05/C06/C08/C12/C19; pandas/openpyxl '
         'I/O and plots are outside; "counts sum to the events within the edges" is a property of '
         'np.histogram and is outside. Counterexamples are replayed on the real library with '
         'generated FCS files and real pandas (samples, statistics columns, histograms).',
    ref='4/C10', technique='free-term symbolic execution of the orchestrator (CrossHair)')
CLAIMED['C11'] = dict(
    text='Same free-term execution with fault injection as solver choices: each row of a 3-row '
         'sample table (2-row bead table) gets a symbolic fault kind among the ten documented '
         'ones; the call must return, keys follow table order, faulty rows map to ExcelUIException '
         'and ERROR notes with empty statistics, healthy rows equal their single-row results. '
         'Found and led to the repair of the batch-aborting ve.message defect.',
    note='Trusted: pandas stand-in, term stubs (the density gate stub raises the library\'s '
         'ValueError for a fraction outside [0,1]). Counterexamples replayed on the real library '
         'with generated files.',
    ref='4/C11', technique='free-term symbolic execution with symbolic fault vectors (CrossHair)')

CLAIMED['C02'] = dict(
    text='PARTIAL: grouping events by generating subpopulation (GMM clustering quality), the 10% '
         'accuracy of the conversion and seed reproducibility are NOT decided (compiled iterative '
         'numerics). Decided symbolically on get_transform_fxn + selection_std with the clusterer '
         'a stub returning any relabelling of the true partition and the fit a free term: values '
         'assigned in order of brightness (symbolic order), unknown or near-limit populations '
         'excluded while the others keep their values, the fit receives exactly the true '
         'population statistics, one label per event / one statistic per population / equal '
         'lengths, result = to_mef bound to curves and channels, independence of event order and '
         'label names.',
    note='Undecided half first: clustering, numeric accuracy, seeds. Trusted: symnp, stats '
         'models, CrossHair, z3. 3 populations x 2 events, 1-2 channels, linear selection scale.',
    ref='4/C02', technique=TECH + '; clusterer and fit stubbed (free terms)')

NA = {
    'C15': 'whole-program run through compiled third-party code and the file system (openpyxl/'
           'pandas xlsx I/O, matplotlib rendering): cannot be executed symbolically; stubbing it '
           'leaves nothing of the property (DESIGN.md section 4/C15)',
}

checks = []
for p in props:
    pid = p['id']
    if pid not in CLAIMED:
        continue
    c = CLAIMED[pid]
    checks.append({
        'property_id': pid,
        'quick_cmd': './check %s --tier quick' % pid,
        'thorough_cmd': './check %s --tier thorough' % pid,
        'evidence_file': 'evidence/%s.json' % pid,
        'replay_cmd_template': './check %s --replay {path}' % pid,
        'engine': 'crosshair+z3 on re-hosted FlowCal/symnp',
        'level_claimed': {'category': 'other', 'text': c['text'],
                          'design_ref': 'DESIGN.md section ' + c['ref']},
        'level_note': c['note'],
        'technique': c['technique'],
    })
na = []
for p in props:
    pid = p['id']
    if pid in CLAIMED:
        continue
    na.append({'property_id': pid,
               'reason': NA.get(pid, 'check not built yet (planned: DESIGN.md section 4)')})

manifest = {
    'version': 1,
    'setup_cmd': './check --setup',
    'hooks': {
        'guard': 'TABORLAB_FLOWCAL_VERIF',
        'enable': 'none needed: the checks re-host the current source text of /repo/FlowCal/*.py '
                  'onto a NumPy model at run time; there is no hook code in /repo',
        'baseline_off_cmd': 'cd /repo && /venv/bin/python -m pytest -ra -q -p no:cacheprovider '
                            '--timeout=900 --continue-on-collection-errors',
        'source_commits': [],
        'add_only': True,
    },
    'engines': [
        {'name': 'crosshair+z3 on re-hosted FlowCal/symnp', 'path': 'vf/',
         'serves_properties': sorted(CLAIMED),
         'kind_free_text': 'symbolic execution of the real FlowCal source (CrossHair 0.0.110, z3 '
                           '5.1.0) with third-party libraries replaced by models; counterexamples '
                           'replayed on the real library'},
        {'name': 'z3 direct (bit-vector batch)', 'path': 'vf/props/c01.py',
         'serves_properties': ['C01'],
         'kind_free_text': 'one push/pop query per file layout over symbolic file bytes'},
    ],
    'checks': checks,
    'notes': 'Exit codes: 0 held on everything explored (INCONCLUSIVE conditions are printed and '
             'counted in evidence), 1 reproduced violation, 2 model gap (cannot decide), 3 harness '
             'error. Genuine defects repaired in /repo by fix: commits are listed in '
             'known_findings.json.',
    'not_applicable': na,
}
with open(os.path.join(HERE, 'MANIFEST.json'), 'w') as f:
    json.dump(manifest, f, indent=1)
print('claimed:', sorted(CLAIMED), 'not applicable/not built:', [x['property_id'] for x in na])
