#!/bin/sh
# usage: tools/seedtest.sh <Cnn> <patch.diff> [extra check args]  — applies a seeded change to /repo,
# runs the quick check, and always restores /repo afterwards (also on interruption).
P=$1; D=$2; shift 2
cleanup() { cd /repo && git reset -q --hard HEAD && git clean -fdq FlowCal; }
trap cleanup EXIT INT TERM PIPE
cd /repo || exit 9
[ -z "$(git status --porcelain)" ] || { echo "/repo not clean"; trap - EXIT; exit 9; }
git apply --3way "$D" >/dev/null 2>&1 || git apply "$D" || { echo "patch does not apply"; exit 9; }
git reset -q
cd /verif && ./check "$P" "$@" > /tmp/w/seedtest.out 2>&1
echo "check exit=$?"
grep -v conda /tmp/w/seedtest.out | grep "VIOLATION\|what=\|INCONCL\|ERROR\|MODELGAP\|KNOWN" | cut -c1-400 | head -${SEEDTEST_LINES:-12}
