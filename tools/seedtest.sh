#!/bin/sh
# usage: tools/seedtest.sh <Cnn> <patch.diff> [extra check args]  — applies a seeded change to /repo,
# runs the quick check, and always restores /repo afterwards.
P=$1; D=$2; shift 2
cd /repo || exit 9
git diff --quiet || { echo "/repo not clean"; exit 9; }
git apply --3way "$D" >/dev/null 2>&1 || git apply "$D" || { echo "patch does not apply"; exit 9; }
cd /verif && ./check "$P" "$@" 2>&1 | grep -v conda | grep "VIOLATION\|what=\|INCONCL\|ERROR\|MODELGAP\|KNOWN"
echo "exit=$?"
cd /repo && git reset -q && git checkout -- . && git clean -fdq FlowCal
